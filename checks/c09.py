"""C09 - generator-based managers and exit stacks unfold into the exact nested tree.

Deciding method: the harness builds the tree, so it knows it.  Random trees of plain managers,
@contextmanager/@asynccontextmanager functions (with and without yield from helpers) and
ExitStack/AsyncExitStack filled by random sequences of the registration calls are entered by a
coroutine; the extracted Context tree is compared node by node with the construction record,
while suspended in the body and while a generator-based manager is exiting.
"""
import sys

PROPERTY = "C09"
LEVEL = "exploration"
TECHNIQUE = "runtime monitoring: constructed-tree oracle compared recursively with the extracted Context tree"
RULE = ("random trees (depth <= N) over plain sync/async managers (some falsy: __len__ -> 0), generator-based managers "
        "(one or two nested withs, yield from helper, async), ExitStack/AsyncExitStack populated by random sequences of "
        "enter_context, push(manager), push(function), push(bound method), callback, enter_async_context, "
        "push_async_exit(manager/function/method), push_async_callback; observed suspended in the body, and while the "
        "outer generator-based manager is exiting (suspended in an async manager's finally / probed from a sync "
        "manager's finally). non-trivial = tree with >= 3 nodes; distinct by (interpreter, tree text, observation kind)")
ASSUMPTIONS = ["referents-mode shards use no alias-named exit methods (documented limit of that analysis: it "
               "recognises exit methods by name)",
               "registration method in the description is checked up to what contextlib itself keeps: push(cm) == "
               "enter_context(cm), push_async_exit(cm) == enter_async_context(cm)",
               "pushed functions are Python functions (a builtin function has __self__ = its module)"]
MIN_NONTRIVIAL = {"quick": 3000, "thorough": 60000}
REQUIRED_COUNTERS = {"falsy_managers_in_stacks": {"quick": 200, "thorough": 4000},
                     "exiting_observations": {"quick": 500, "thorough": 10000},
                     "exit_stack_unwinding_observations": {"quick": 500, "thorough": 10000},
                     "exit_stack_children_checked": {"quick": 3000, "thorough": 60000},
                     "gcm_inner_stacks_checked": {"quick": 3000, "thorough": 60000},
                     "shards_in_referents_mode": {"quick": 4, "thorough": 4}}
SHARD_TIMEOUT = {"quick": 400, "thorough": 5400}
INTERPS = ["3.12", "3.11", "3.10", "3.9"]


def plan(tier, seed):
    shards = []
    for interp in INTERPS:
        for s in range(4):
            shards.append({"interp": interp, "seed": seed * 100 + s, "cases": 6000 if tier == "quick" else 150000,
                           "max_depth": 3 if tier == "quick" else 5, "budget_s": 40 if tier == "quick" else 1500})
        # the same trees through the fallback (gc-referents) analysis: the tree of managers does not depend on
        # which analysis found them
        shards.append({"interp": interp, "seed": seed * 100 + 7, "cases": 6000 if tier == "quick" else 150000,
                       "max_depth": 3 if tier == "quick" else 5, "budget_s": 40 if tier == "quick" else 1500,
                       "referents": True})
    return shards


def worker(spec):
    import contextlib
    import random
    import types
    import warnings
    from vlib.worker import Result
    from vlib import ctxwork, ctxmon
    import stackscope
    from stackscope import Context, Stack

    res = Result()
    interp = "%d.%d" % sys.version_info[:2]
    budget = ctxwork.Budget(spec.get("budget_s", 60))
    if spec.get("referents"):
        from stackscope import lowlevel as _ll
        _ll.set_trickery_enabled(False)
        res.count("shards_in_referents_mode")
    rng = random.Random(spec["seed"])
    maxd = spec["max_depth"]

    @types.coroutine
    def sus(v):
        return (yield v)

    class S(object):
        def __init__(s, falsy=False):
            s.falsy = falsy

        def __enter__(s):
            return s

        def __exit__(s, *e):
            pass

        def __len__(s):
            return 0 if s.falsy else 1

        def close(s, *e):
            pass

        def __repr__(s):
            # hostile but legal: describing an entry has a side effect on the very stack being unfolded
            hook = getattr(s, "repr_hook", None)
            if hook is not None:
                s.repr_hook = None
                hook()
            return "<S %s>" % ("falsy" if s.falsy else "truthy")

    class A(object):
        def __init__(s, falsy=False):
            s.falsy = falsy

        async def __aenter__(s):
            return s

        async def __aexit__(s, *e):
            pass

        def __len__(s):
            return 0 if s.falsy else 1

        async def aclose(s, *e):
            pass

    class SX(S):
        """exit method defined under another name (`__exit__ = shut`): nothing may key on its __name__"""

        def shut(s, *e):
            pass

        __exit__ = shut

    class AX(A):
        async def ashut(s, *e):
            pass

        __aexit__ = ashut

    def fn(*e, **k):
        pass

    async def afn(*e, **k):
        pass

    @contextlib.contextmanager
    def g1(a):
        with a:
            yield

    @contextlib.contextmanager
    def g2(a, b):
        with a:
            with b:
                yield

    def helper(a):
        with a:
            yield

    @contextlib.contextmanager
    def gyf(a):
        yield from helper(a)

    @contextlib.asynccontextmanager
    async def ag1(a):
        if hasattr(a, "__aenter__"):
            async with a:
                yield
        else:
            with a:
                yield

    probe_box = {}

    @contextlib.contextmanager
    def gx(a):
        """sync manager observed from its own finally (running, exiting)"""
        with a:
            try:
                yield
            finally:
                if probe_box.get("armed"):
                    probe_box["armed"] = False
                    probe_box["stack"] = stackscope.extract(probe_box["co"])

    @contextlib.asynccontextmanager
    async def agx(a):
        """async manager that suspends in its finally (suspended, exiting)"""
        with a:
            try:
                yield
            finally:
                await sus("in-exit")

    def gen(depth, want_async):
        r = rng.random()
        if depth >= maxd or r < 0.3:
            if want_async and rng.random() < 0.5:
                return ("A", rng.random() < 0.25)
            return ("S", rng.random() < 0.3)
        k = rng.choice(["g1", "g2", "gyf", "ES", "ES"] + (["ag1", "AES", "AES"] if want_async else []))
        if k == "g1":
            return ("g1", gen(depth + 1, False))
        if k == "g2":
            return ("g2", gen(depth + 1, False), gen(depth + 1, False))
        if k == "gyf":
            return ("gyf", gen(depth + 1, False))
        if k == "ag1":
            return ("ag1", gen(depth + 1, True))
        regs = []
        for _ in range(rng.randint(0, 4)):
            m = rng.choice(["enter_context", "push_cm", "push_fn", "push_meth", "callback", "again"] +
                           (["mutating_repr"] if rng.random() < 0.08 else []) +
                           (["enter_async_context", "push_async_exit_cm", "push_async_exit_fn", "push_async_exit_meth",
                             "push_async_callback"] if k == "AES" else []))
            sub = None
            if m in ("enter_context", "push_cm"):
                sub = gen(depth + 1, False)
            if m in ("enter_async_context", "push_async_exit_cm"):
                sub = gen(depth + 1, True)
                if sub[0] not in ("A", "ag1", "AES"):
                    sub = ("A", rng.random() < 0.25)
            regs.append((m, sub))
        return (k, regs)

    def is_async_node(n):
        return n[0] in ("A", "ag1", "AES", "agx")

    def size(n):
        if n[0] in ("S", "A"):
            return 1
        if n[0] in ("ES", "AES"):
            return 1 + sum(size(s) if s else 1 for _, s in n[1])
        return 1 + sum(size(x) for x in n[1:])

    async def build(n):
        k = n[0]
        if k == "S":
            m = (SX if rng.random() < 0.15 and not spec.get("referents") else S)(n[1])
            if isinstance(m, SX):
                res.count("alias_named_exit_managers")
            return m, ("plain", m, False)
        if k == "A":
            m = (AX if rng.random() < 0.15 and not spec.get("referents") else A)(n[1])
            if isinstance(m, AX):
                res.count("alias_named_exit_managers")
            return m, ("plain", m, True)
        if k in ("g1", "gyf", "ag1", "gx", "agx"):
            a, ea = await build(n[1])
            m = {"g1": g1, "gyf": gyf, "ag1": ag1, "gx": gx, "agx": agx}[k](a)
            return m, ("gcm", m, k in ("ag1", "agx"), [ea], 2 if k == "gyf" else 1)
        if k == "g2":
            a, ea = await build(n[1])
            b, eb = await build(n[2])
            m = g2(a, b)
            return m, ("gcm", m, False, [ea, eb], 1)
        st = contextlib.ExitStack() if k == "ES" else contextlib.AsyncExitStack()
        exp = []
        for meth, sub in n[1]:
            if meth == "enter_context":
                m, e = await build(sub)
                st.enter_context(m)
                exp.append(("enter_context", m, False, e))
            elif meth == "push_cm":
                m, e = await build(sub)
                m.__enter__()
                st.push(m)
                exp.append(("enter_context", m, False, e))
            elif meth == "again":
                # the same object registered a second time through another route
                prev = [e for e in exp if e[0] in ("enter_context", "push") and isinstance(e[1], S)]
                if prev:
                    o = prev[-1][1]
                    st.push(o.close)
                    exp.append(("push", o, False, None))
                    res.count("same_object_registered_twice")
                else:
                    o = S(False)
                    st.push(o.close)
                    exp.append(("push", o, False, None))
                    bm = o.close
                    st.callback(bm, 1)
                    exp.append(("callback", bm, False, None))
                    res.count("same_object_registered_twice")
            elif meth == "mutating_repr":
                # entry whose repr() registers one more callback on this same stack while stackscope is
                # iterating over the registered callbacks
                o = S(False)
                o.repr_hook = (lambda st=st: st.callback(fn, "late"))
                st.push(o.close)
                exp.append(("push", o, False, None))
                holder_mut.append(st)
                res.count("registrations_mutated_during_unfolding")
            elif meth == "push_fn":
                st.push(fn)
                exp.append(("push", fn, False, None))
            elif meth == "push_meth":
                o = S(rng.random() < 0.3)
                st.push(o.close)
                exp.append(("push", o, False, None))
            elif meth == "callback":
                st.callback(fn, 1, k=2)
                exp.append(("callback", fn, False, None))
            elif meth == "enter_async_context":
                m, e = await build(sub)
                await st.enter_async_context(m)
                exp.append(("enter_async_context", m, True, e))
            elif meth == "push_async_exit_cm":
                m, e = await build(sub)
                await m.__aenter__()
                st.push_async_exit(m)
                exp.append(("enter_async_context", m, True, e))
            elif meth == "push_async_exit_fn":
                st.push_async_exit(afn)
                exp.append(("push_async_exit", afn, True, None))
            elif meth == "push_async_exit_meth":
                o = A()
                st.push_async_exit(o.aclose)
                exp.append(("push_async_exit", o, True, None))
            elif meth == "push_async_callback":
                st.push_async_callback(afn, 1)
                exp.append(("push_async_callback", afn, True, None))
        return st, ("stack", st, k == "AES", exp)

    problems = []
    holder_mut = []

    def check(ctx, exp, path, exiting=False):
        kind = exp[0]
        if ctx.obj is not exp[1]:
            problems.append((path, "obj is %s, expected the %s that was registered" % (
                type(ctx.obj).__name__, type(exp[1]).__name__)))
        if ctx.is_async != exp[2]:
            problems.append((path, "is_async"))
        if kind == "plain":
            if getattr(exp[1], "falsy", False):
                res.count("falsy_managers_checked")
            if ctx.inner_stack is not None or ctx.children:
                problems.append((path, "plain manager has substructure"))
        elif kind == "gcm":
            st = ctx.inner_stack
            if exiting:
                if st is not None:
                    problems.append((path, "inner_stack present although the manager is exiting"))
                return
            res.count("gcm_inner_stacks_checked")
            if st is None or st.error:
                problems.append((path, "no inner stack / error", repr(st and st.error)))
                return
            genobj = exp[1].gen
            fr = getattr(genobj, "gi_frame", None) or getattr(genobj, "ag_frame", None)
            if len(st.frames) != exp[4] or st.frames[0].pyframe is not fr:
                problems.append((path, "inner frames", [f.funcname for f in st.frames]))
                return
            inner_ctxs = st.frames[-1].contexts
            if len(inner_ctxs) != len(exp[3]):
                problems.append((path, "inner context count %d != %d" % (len(inner_ctxs), len(exp[3]))))
                return
            for i, (c, e) in enumerate(zip(inner_ctxs, exp[3])):
                check(c, e, path + (i,))
        else:
            kids = ctx.children
            if any(exp[1] is m_ for m_ in holder_mut) and len(kids) > len(exp[3]):
                # the stack grew (at its end) while it was being unfolded, now or during an earlier
                # observation: the callbacks registered by the harness come first, in order
                kids = kids[: len(exp[3])]
            if len(kids) != len(exp[3]):
                problems.append((path, "children count %d != %d registered callbacks" % (len(kids), len(exp[3]))))
                return
            for i, (c, (meth, obj, asy, sub)) in enumerate(zip(kids, exp[3])):
                res.count("exit_stack_children_checked")
                if getattr(obj, "falsy", False):
                    res.count("falsy_managers_in_stacks")
                if not isinstance(c, Context):
                    problems.append((path, "child is not a Context"))
                    continue
                o = c.obj
                ok = o is obj or getattr(o, "__wrapped__", None) is obj
                if not ok:
                    problems.append((path + (i,), "child obj for %s is %s, not the registered %s" % (
                        meth, type(o).__name__, type(obj).__name__)))
                if c.is_async != asy:
                    problems.append((path + (i,), "child is_async wrong for %s" % meth))
                if ("." + meth + "(") not in (c.description or ""):
                    problems.append((path + (i,), "description %r does not name %s" % (c.description, meth)))
                # entries are addressed through their stack: <stack's name>[index], at every nesting level
                # ("_" when the stack itself has no name)
                base = ctx.varname or "_"
                if c.varname != "%s[%d]" % (base, i):
                    problems.append((path + (i,), "child varname %r, expected %r" % (c.varname, "%s[%d]" % (base, i))))
                elif (base + "." + meth + "(") not in (c.description or ""):
                    problems.append((path + (i,), "description %r does not go through %r" % (c.description, base)))
                elif len(path) >= 2:
                    res.count("nested_stack_entries_name_checked")
                if sub is not None:
                    check(c, sub, path + (i,))

    async def stack_exit_suspend():
        await sus("in-stack-exit")

    def stack_exit_probe():
        if probe_box.get("armed"):
            probe_box["armed"] = False
            probe_box["stack"] = stackscope.extract(probe_box["co"])
            # judge now: once the stack has unwound, the generators are finished
            probe_box["judge"](probe_box["stack"])

    async def main(node, holder):
        m, exp = await build(node)
        holder["exp"] = exp
        if holder.get("mode") == "exit-stack":
            # registered last => runs first when the stack unwinds; by then it has been popped
            if node[0] == "AES":
                m.push_async_callback(stack_exit_suspend)
            else:
                m.callback(stack_exit_probe)
        if is_async_node(node):
            async with m as x:  # noqa
                await sus("body")
        else:
            with m as x:  # noqa
                await sus("body")

    for case in range(spec["cases"]):
        if budget.over():
            res.count("budget_cut")
            break
        node = gen(0, True)
        mode = rng.choice(("body", "body", "exit-async", "exit-sync", "exit-stack", "exit-stack"))
        if mode == "exit-async":
            node = ("agx", node if not is_async_node(node) else ("S", False)) if rng.random() < 0.5 else ("agx", ("S", False))
            if node[1][0] in ("A", "ag1", "AES", "agx"):
                node = ("agx", ("S", False))
        elif mode == "exit-sync":
            inner = node if not is_async_node(node) else ("S", rng.random() < 0.3)
            node = ("gx", inner)
        elif mode == "exit-stack":
            # an exit stack observed while it unwinds, with earlier-registered entries still on it
            k = rng.choice(("ES", "AES"))
            saved = maxd
            regs = []
            for _ in range(rng.randint(1, 4)):
                sub = gen(1, False)
                regs.append((rng.choice(("enter_context", "push_cm")), sub))
                if k == "AES" and rng.random() < 0.4:
                    regs.append(("enter_async_context", ("ag1", gen(2, True))))
            node = (k, regs)
        desc = repr(node)
        del holder_mut[:]
        holder = {"mode": mode}
        co = main(node, holder)
        res.evaluations += 1
        before = len(problems)
        with warnings.catch_warnings(record=True) as w:
            warnings.simplefilter("always")
            v = co.send(None)
            st = stackscope.extract(co)
            sig_body = ctxmon.value_signature(st)
            st_again = stackscope.extract(co)
        # results are values: a second extraction of the same target neither changes the first result nor differs
        res.count("earlier_results_rechecked")
        if ctxmon.value_signature(st) != sig_body:
            problems.append(((), "the first result changed when the target was extracted again"))
        elif ctxmon.value_signature(st_again) != sig_body and not holder_mut:
            problems.append(((), "two extractions of an unchanged target differ"))
        exp = holder["exp"]
        if st.error or [x for x in w if "Inspection" in type(x.message).__name__]:
            problems.append(((), "error/warning", repr(st.error), [str(x.message)[:80] for x in w]))
        ctxs = st.frames[0].contexts
        if len(ctxs) != 1:
            problems.append(((), "top context count %d" % len(ctxs)))
        elif mode == "exit-stack":
            # in the body the probe callback is one more child: compare the others
            c = ctxs[0]
            if len(c.children) != len(exp[3]) + 1:
                problems.append(((), "children count %d != %d registered callbacks" % (len(c.children), len(exp[3]) + 1)))
        else:
            check(ctxs[0], exp, ())
        if size(node) >= 3:
            res.nontrivial(interp, desc, "body")
        # exiting observations
        if mode == "exit-async":
            v2 = co.send(None)  # leaves the body; agx suspends in its finally
            if v2 == "in-exit":
                with warnings.catch_warnings(record=True) as w:
                    warnings.simplefilter("always")
                    st2 = stackscope.extract(co)
                res.count("exiting_observations")
                res.nontrivial(interp, desc, "exit-async")
                c0 = st2.frames[0].contexts
                if st2.error:
                    problems.append(((), "error while exiting", repr(st2.error)))
                if len(c0) != 1 or not c0[0].is_exiting:
                    problems.append(((), "exiting: top context missing or not is_exiting"))
                else:
                    check(c0[0], exp, (), exiting=True)
                    agen_frame = exp[1].gen.ag_frame
                    if not any(f.pyframe is agen_frame for f in st2.frames[1:]):
                        problems.append(((), "exiting: the manager's generator frame is not in the main frame series",
                                         [f.funcname for f in st2.frames]))
                    else:
                        # its own contexts (the inner `with a`) are reported on that frame
                        gf = [f for f in st2.frames if f.pyframe is agen_frame][0]
                        if len(gf.contexts) != 1:
                            problems.append(((), "exiting: generator frame should show 1 context", len(gf.contexts)))
                        else:
                            check(gf.contexts[0], exp[3][0], ("gen",))
        elif mode == "exit-stack":
            def judge_unwinding(st2):
                res.count("exiting_observations")
                res.count("exit_stack_unwinding_observations")
                res.nontrivial(interp, desc, "exit-stack")
                c0 = st2.frames[0].contexts
                if st2.error:
                    problems.append(((), "error while the exit stack unwinds", repr(st2.error)))
                if len(c0) != 1 or not c0[0].is_exiting:
                    problems.append(((), "unwinding exit stack: top context missing or not is_exiting"))
                else:
                    # the entries that are still registered are not exiting: full unfolding required
                    check(c0[0], exp, ("unwinding",))
                    for ch in c0[0].children:
                        if getattr(ch, "is_exiting", False):
                            problems.append(((), "a still-registered entry of an unwinding exit stack is reported as exiting"))

            if node[0] == "AES":
                v2 = co.send(None)
                if v2 == "in-stack-exit":
                    with warnings.catch_warnings(record=True) as w:
                        warnings.simplefilter("always")
                        judge_unwinding(stackscope.extract(co))
            else:
                probe_box.update(armed=True, co=co, stack=None, judge=judge_unwinding)
                try:
                    co.send(None)
                except StopIteration:
                    pass
                probe_box["armed"] = False
        elif mode == "exit-sync":
            probe_box.update(armed=True, co=co, stack=None)
            try:
                co.send(None)
            except StopIteration:
                pass
            st2 = probe_box.get("stack")
            probe_box["armed"] = False
            if st2 is not None:
                res.count("exiting_observations")
                res.nontrivial(interp, desc, "exit-sync")
                c0 = st2.frames[0].contexts
                if st2.error:
                    problems.append(((), "error while exiting (sync)", repr(st2.error)))
                if len(c0) != 1 or not c0[0].is_exiting:
                    problems.append(((), "exiting(sync): top context missing or not is_exiting"))
                else:
                    check(c0[0], exp, (), exiting=True)
                    gen_frame_fn = "gx"
                    if not any(f.funcname == gen_frame_fn for f in st2.frames[1:]):
                        problems.append(((), "exiting(sync): generator frame not in the main series",
                                         [f.funcname for f in st2.frames]))
        if len(problems) > before:
            res.violation(kind="context-tree", tree=desc, mode=mode, problems=[repr(p)[:300] for p in problems[before:before + 3]],
                          interp=interp)
        if len(res.samples) < 2 and size(node) >= 5:
            res.sample({"tree": desc, "mode": mode})
        try:
            while True:
                co.send(None)
        except StopIteration:
            pass
        except BaseException:
            pass
    return res
