"""C19 - standard-library summaries and flat format faithfully project the Stack.

Deciding method: executable reference model of the projection written from the statement,
compared field by field with as_stdlib_summary(...) on generated Stack trees and on real
extracted stacks, for all flag combinations; pickle round trip; reachability scan for frames;
format_flat composition.
"""
import sys

PROPERTY = "C19"
LEVEL = "exploration"
TECHNIQUE = "runtime monitoring against an executable reference projection; pickle round trip; gc reachability scan"
RULE = ("the generated Stack trees of C18 plus real stacks extracted from suspended coroutines with nested generator-based "
        "managers and exit stacks; all combinations of show_contexts, show_hidden_frames, capture_locals. non-trivial = "
        "summary of a tree with >= 1 context; distinct by (tree serial, flags)")
ASSUMPTIONS = ["traceback.StackSummary/FrameSummary of the running interpreter are the container types"]
MIN_NONTRIVIAL = {"quick": 5000, "thorough": 100000}
REQUIRED_COUNTERS = {"summaries": {"quick": 20000, "thorough": 400000},
                     "pickle_roundtrips": {"quick": 20000, "thorough": 400000},
                     "frame_reachability_scans": {"quick": 2000, "thorough": 20000},
                     "real_stack_summaries": {"quick": 200, "thorough": 2000},
                     "exiting_frames_omitted": {"quick": 500, "thorough": 10000},
                     "error_sections_rendered_independently": {"quick": 2000, "thorough": 40000},
                     "frameless_toplevel_stacks_with_leaf": {"quick": 50, "thorough": 1000},
                     "stacks_summarised_with_sys_tracebacklimit_set": {"quick": 1000, "thorough": 20000}}
SHARD_TIMEOUT = {"quick": 400, "thorough": 5400}
INTERPS = ["3.12", "3.11", "3.10", "3.9"]


def plan(tier, seed):
    shards = []
    for interp in INTERPS:
        for s in range(4):
            shards.append({"interp": interp, "seed": seed * 100 + s, "trees": 5000 if tier == "quick" else 120000,
                           "max_depth": 3 if tier == "quick" else 5, "width": 3 if tier == "quick" else 5,
                           "budget_s": 40 if tier == "quick" else 1500})
    return shards


def worker(spec):
    import contextlib
    import gc
    import itertools
    import pickle
    import random
    import traceback
    import types
    from vlib.worker import Result
    from vlib import ctxwork, fmttrees
    import stackscope
    from stackscope import Context

    res = Result()
    interp = "%d.%d" % sys.version_info[:2]
    budget = ctxwork.Budget(spec.get("budget_s", 60))
    rng = random.Random(spec["seed"])
    T = fmttrees.Trees(rng, spec["max_depth"], spec["width"])

    def info(c):
        if c.obj is not None:
            return "%s: %s" % (c.varname or "_", type(c.obj).__name__)
        if c.varname is not None:
            return c.varname
        return ""

    def model_stack(st, show_ctx, hidden, out):
        for f in st.frames:
            if f.hide and not hidden:
                continue
            if show_ctx:
                for c in f.contexts:
                    model_ctx(c, f, hidden, out)
                if not (f.contexts and f.contexts[-1].is_exiting):
                    out.append((f.filename, f.lineno, f.funcname))
                else:
                    res.count("exiting_frames_omitted")
            else:
                out.append((f.filename, f.lineno, f.funcname))

    def model_ctx(c, parent, hidden, out):
        if c.hide and not hidden:
            return
        i = info(c)
        out.append((parent.filename, c.start_line or parent.lineno, parent.funcname + (" (%s)" % i if i else "")))
        if c.inner_stack is not None:
            model_stack(c.inner_stack, True, hidden, out)
        for ch in c.children:
            if isinstance(ch, Context):
                model_ctx(ch, parent, hidden, out)

    def has_frame(obj, seen):
        if id(obj) in seen:
            return False
        seen.add(id(obj))
        if isinstance(obj, types.FrameType):
            return True
        if isinstance(obj, (str, int, float, type(None), bytes, type, types.ModuleType, types.FunctionType)):
            return False
        return any(has_frame(r, seen) for r in gc.get_referents(obj))

    def check(st, label, scan):
        for sc, hid, cl in itertools.product((False, True), (False, True), (False, True)):
            res.evaluations += 1
            res.count("summaries")
            probs = []
            try:
                summ = st.as_stdlib_summary(show_contexts=sc, show_hidden_frames=hid, capture_locals=cl)
            except Exception as ex:
                res.violation(kind="as_stdlib_summary raised", error=repr(ex), label=label, interp=interp)
                continue
            if not isinstance(summ, traceback.StackSummary):
                probs.append("not a StackSummary")
            got = [(s.filename, s.lineno, s.name) for s in summ]
            exp = []
            model_stack(st, sc, hid, exp)
            if got != exp:
                n = 0
                while n < min(len(got), len(exp)) and got[n] == exp[n]:
                    n += 1
                probs.append("entries differ from the projection at %d: got %r expected %r" % (n, got[n:n + 2], exp[n:n + 2]))
            if cl and any(s.locals is None for s in summ):
                probs.append("capture_locals=True left an entry without locals")
            if not cl and any(s.locals is not None for s in summ):
                probs.append("capture_locals=False captured locals")
            try:
                rt = pickle.loads(pickle.dumps(summ))
                res.count("pickle_roundtrips")
                a = [(s.filename, s.lineno, s.name, s.line, s.locals) for s in rt]
                b = [(s.filename, s.lineno, s.name, s.line, s.locals) for s in summ]
                if a != b:
                    probs.append("pickle round trip changes the summary")
            except Exception as e:
                probs.append("summary cannot be pickled: %r" % (e,))
            if scan:
                res.count("frame_reachability_scans")
                if has_frame(list(summ), set()):
                    probs.append("a frame object is reachable from the summary")
            if not cl:
                try:
                    flat = st.format_flat(show_contexts=sc)
                    expflat = [st._format_header()]
                    if st.frames:
                        expflat += st.as_stdlib_summary(show_contexts=sc).format()
                    if st.leaf is not None:
                        expflat.append("  Target of innermost frame: %r\n" % (st.leaf,))
                    if st.error is not None:
                        # independent rendering: every physical line of the standard exception
                        # rendering (minus its heading) indented by two spaces
                        expflat.append("  Error while extracting stack:\n")
                        for ln in traceback.format_exception(type(st.error), st.error, st.error.__traceback__):
                            if ln != "Traceback (most recent call last):\n":
                                for sub in ln.split("\n"):
                                    if sub or not ln.endswith("\n" + sub):
                                        pass
                                for sub in ln.splitlines(True):
                                    expflat.append("  " + sub)
                        res.count("error_sections_rendered_independently")
                    if flat != expflat:
                        probs.append("format_flat is not header + StackSummary.format() + leaf + error lines")
                    if not flat[0].startswith("stackscope.Stack") or any(not l.endswith("\n") for l in flat):
                        probs.append("format_flat lines malformed")
                except Exception as ex:
                    probs.append("format_flat raised %r" % (ex,))
            if any(f.contexts for f in st.frames):
                res.nontrivial(interp, label, sc, hid, cl)
            if probs:
                res.violation(kind="stdlib summary", label=repr(label), flags=dict(show_contexts=sc, show_hidden_frames=hid,
                              capture_locals=cl), problems=probs[:3], interp=interp)

    plain_check = check

    def check(st, label, scan):  # noqa: F811
        """every fourth stack is summarised while the process has sys.tracebacklimit set (command-line tools set it to
        0 or 1 to keep their own error output short): it limits tracebacks of exceptions, not these summaries"""
        NSET[0] += 1
        if NSET[0] % 4:
            return plain_check(st, label, scan)
        sys.tracebacklimit = (0, 1, 2, -1)[(NSET[0] // 4) % 4]
        res.count("stacks_summarised_with_sys_tracebacklimit_set")
        try:
            return plain_check(st, tuple(label) + ("sys.tracebacklimit=%d" % sys.tracebacklimit,), scan)
        finally:
            del sys.tracebacklimit

    NSET = [0]
    for case in range(spec["trees"]):
        if budget.over():
            res.count("budget_cut")
            break
        st = T.stack(0)
        if not st.frames:
            res.count("frameless_toplevel_stacks")
            if st.leaf is not None:
                res.count("frameless_toplevel_stacks_with_leaf")
        check(st, ("tree", spec["seed"], case), scan=(case % 5 == 0))
    # real stacks
    @types.coroutine
    def sus(v):
        return (yield v)

    def cb(*a):
        pass

    @contextlib.contextmanager
    def inner_cm(n):
        with contextlib.ExitStack() as st:
            for _ in range(n):
                st.enter_context(contextlib.nullcontext())
            st.callback(cb, 1)
            yield

    @contextlib.asynccontextmanager
    async def outer_acm(n):
        with inner_cm(n):
            try:
                yield
            finally:
                await sus("exit")

    async def lvl2(n):
        async with outer_acm(n) as o:  # noqa
            with inner_cm(n + 1) as i:  # noqa
                await sus(1)

    async def lvl1(n):
        with inner_cm(n):
            await lvl2(n)

    for rep in range(60):
        for n in range(0, 4):
            co = lvl1(n)
            co.send(None)
            st = stackscope.extract(co)
            res.count("real_stack_summaries")
            check(st, ("real", n, "body"), scan=True)
            co.send(None)   # now suspended inside outer_acm's finally: exiting
            st = stackscope.extract(co)
            res.count("real_stack_summaries")
            check(st, ("real", n, "exiting"), scan=True)
            co.close()
    res.sample({"example": "".join(st.format_flat(show_contexts=True))[:1000]})
    return res
