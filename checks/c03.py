"""C03 - a suspended await/yield-from chain extracts as the path an exception would take.

Deciding method: independent second observation - after extract(x) a private Probe exception
is thrown into x and the traceback it comes out with (CPython's own delegation) is compared
frame-by-frame (identity and line) with extract(x).frames; leaf/root/exhaustion/with_contexts
clauses checked alongside.
"""
import sys
import warnings

PROPERTY = "C03"
LEVEL = "exploration"
TECHNIQUE = "runtime monitoring: thrown-exception traceback as independent oracle for extracted chains"
RULE = ("all chains of depth 0..N over links {await coroutine, generator-based coroutine, __await__ -> coroutine "
        "wrapper / generator / plain iterator, async-generator __anext__/asend/athrow/aclose/async for, yield from} "
        "with roots {coroutine, generator, async generator} and leaves {trap, two-step trap, list iterator, custom "
        "iterator, generator-__await__ future}, each link optionally suspending itself before/after delegating; every "
        "suspension point of every chain is observed on a fresh instance (the oracle is destructive). non-trivial = "
        ">=2 frames or a non-frame leaf; distinct by (interpreter, link kinds, pre/post, leaf, suspension index)")
ASSUMPTIONS = [
    "no generated code catches the Probe exception, so its traceback is exactly the unwinding path",
]
MIN_NONTRIVIAL = {"quick": 3000, "thorough": 40000}
REQUIRED_COUNTERS = {"earlier_suspensions_observed_on_the_way": {"quick": 5000, "thorough": 50000},
                     "obs_nonframe_leaf": {"quick": 300, "thorough": 3000},
                     "obs_falsy_leaf": {"quick": 100, "thorough": 1000},
                     "chains_deeper_than_100": {"quick": 6, "thorough": 6},
                     "chains_with_agen_payload": {"quick": 100, "thorough": 1000},
                     "obs_agen_links": {"quick": 300, "thorough": 3000},
                     "exhausted_checked": {"quick": 300, "thorough": 3000},
                     "outermost_peeked_first": {"quick": 3000, "thorough": 30000}}
SHARD_TIMEOUT = {"quick": 400, "thorough": 5400}
INTERPS = ["3.12", "3.11", "3.10", "3.9"]
EXHAUSTIVE = {"quick": False, "thorough": False}


def plan(tier, seed):
    shards = []
    nsh = 4 if tier == "quick" else 8
    for interp in INTERPS:
        for s in range(nsh):
            shards.append({"interp": interp, "seed": seed, "part": s, "parts": nsh,
                           "depth": 3 if tier == "quick" else 5,
                           "exhaustive_depth": 2 if tier == "quick" else 3,
                           "sample": 250 if tier == "quick" else 4000,
                           "budget_s": 45 if tier == "quick" else 1500})
    return shards


def check_chain(spec, res, interp, chains, stackscope, state):
    """observe every suspension of one chain spec; returns number of suspensions"""
    t = chains.Target(spec)
    n = 0
    while t.step():
        n += 1
        if n > 60:
            break
    # exhausted target: no frames
    if t.done:
        s = stackscope.extract(t.x)
        res.count("exhausted_checked")
        if s.frames or s.leaf is not None or s.root is not t.x or s.error is not None:
            res.violation(kind="exhausted target", spec=repr(spec), frames=len(s.frames), leaf=repr(s.leaf),
                          error=repr(s.error), interp=interp)
    t.close()
    for j in range(n):
        t = chains.Target(spec)
        for i in range(j + 1):
            t.step()
            if i < j and j % 2 == 0:
                # the same target looked at on the way, at its earlier suspension points: what was seen (or
                # remembered) then must not leak into what is seen now
                with warnings.catch_warnings():
                    warnings.simplefilter("ignore")
                    stackscope.extract(t.x)
                res.count("earlier_suspensions_observed_on_the_way")
        res.evaluations += 1
        if j % 3 == 1:
            # a look at just the outermost frame first (abandons the traversal after one frame): whatever that
            # leaves behind must not change what the full extraction sees
            with warnings.catch_warnings():
                warnings.simplefilter("ignore")
                try:
                    stackscope.extract_outermost(t.x, with_contexts=bool(j % 2))
                except RuntimeError:
                    pass
            res.count("outermost_peeked_first")
        with warnings.catch_warnings(record=True) as w:
            warnings.simplefilter("always")
            s = stackscope.extract(t.x)
            s2 = stackscope.extract(t.x, with_contexts=False)
        got = [(f.pyframe, f.lineno) for f in s.frames]
        problems = []
        if s.root is not t.x:
            problems.append("root is not x")
        if s.error is not None or s2.error is not None:
            problems.append("error %r / %r" % (s.error, s2.error))
        if [f.pyframe for f in s2.frames] != [f for f, _ in got] or [f.lineno for f in s2.frames] != [l for _, l in got]:
            problems.append("with_contexts=False gives different frames")
        if any(f.contexts for f in s2.frames):
            problems.append("with_contexts=False left contexts")
        if type(s.leaf) is not type(s2.leaf):
            problems.append("with_contexts changes the leaf")
        # expected leaf from what the innermost object is
        want_leaf = manual_leaf(t.x)
        exp = t.throw_probe()   # destructive: last
        if not isinstance(exp, list):
            problems.append("oracle did not produce a traceback: %r" % (exp,))
        else:
            if len(got) != len(exp) or any(g[0] is not e[0] for g, e in zip(got, exp)):
                problems.append("frames differ: got %r, exception unwound %r" % (
                    [(f.f_code.co_name, l) for f, l in got], [(f.f_code.co_name, l) for f, l in exp]))
            elif any(g[1] != e[1] for g, e in zip(got, exp)):
                problems.append("line numbers differ: got %r, traceback %r" % (
                    [(f.f_code.co_name, l) for f, l in got], [(f.f_code.co_name, l) for f, l in exp]))
            # leaf: the innermost frame's awaited object if it is not a frame-bearing one
            inner = exp[-1][0] if exp else None
        # independent leaf expectation: walked by hand before the throw
        tbf = getattr(t, "traceback_frames", None)
        if isinstance(exp, list) and tbf is not None and [f for f, _ in tbf] != [f for f, _ in exp]:
            res.count("traceback_object_incomplete")
        if want_leaf is _UNKNOWN:
            res.count("leaf_oracle_unknown")
        elif (s.leaf is None) != (want_leaf is None) or (want_leaf is not None and s.leaf is not want_leaf):
            problems.append("leaf is %r, expected %r" % (s.leaf, want_leaf))
        nontrivial = len(got) >= 2 or s.leaf is not None
        if nontrivial:
            res.nontrivial(interp, repr(spec), j)
        if s.leaf is not None:
            res.count("obs_nonframe_leaf")
        if want_leaf is not _UNKNOWN and want_leaf is not None:
            try:
                if not want_leaf:
                    res.count("obs_falsy_leaf")
            except Exception:
                pass
        if any(k[0] in ("anext", "asend", "afor", "athrow", "aclose") for k in spec[1]) or spec[0] == "agen":
            res.count("obs_agen_links")
        res.count("obs")
        res.count("frames_compared", len(got))
        if problems:
            res.violation(kind="chain-mismatch", spec=repr(spec), suspension=j, problems=problems[:3], interp=interp)
        t.close()
    return n


_UNKNOWN = object()


def manual_leaf(x):
    """follow cr_await / gi_yieldfrom / ag_await (and the single referent of C-level awaitables)
    to the innermost object; return it if it has no frame, None if frames tell the whole story"""
    import gc
    import types
    o = x
    for _ in range(200):
        nxt = _UNKNOWN
        for fa, aw in (("cr_frame", "cr_await"), ("gi_frame", "gi_yieldfrom"), ("ag_frame", "ag_await")):
            if hasattr(o, fa):
                nxt = getattr(o, aw)
                break
        if nxt is _UNKNOWN:
            # C-level awaitable (coroutine wrapper, asend/athrow object) or a true leaf
            refs = [r for r in gc.get_referents(o)
                    if isinstance(r, (types.CoroutineType, types.GeneratorType, types.AsyncGeneratorType))]
            tn = type(o).__name__
            if tn == "anext_awaitable":
                from vlib import chains
                ent = chains.ANEXT_WRAPS.get(id(o))
                if ent is None or ent[0] is not o:
                    return _UNKNOWN
                o = ent[1]
                continue
            if tn in ("coroutine_wrapper", "async_generator_asend", "async_generator_athrow"):
                if len(refs) != 1:
                    return _UNKNOWN
                o = refs[0]
                continue
            return o
        if nxt is None:
            return None
        o = nxt
    return _UNKNOWN


def worker(spec):
    import random
    from vlib.worker import Result
    from vlib import chains, ctxwork
    import stackscope
    res = Result()
    interp = "%d.%d" % sys.version_info[:2]
    budget = ctxwork.Budget(spec.get("budget_s", 60))
    rng = random.Random(spec["seed"] * 101 + 1)
    specs = chains.enumerate_specs(spec["exhaustive_depth"])
    # deeper, sampled, with pre/post suspensions
    specs += [s for s in chains.enumerate_specs(spec["depth"], rng=rng, sample=spec["sample"])]
    specs = [s for i, s in enumerate(specs) if i % spec["parts"] == spec["part"]]
    # very deep chains: > 100 await / yield-from levels, each level a real frame
    # (first, so that a time budget cut on a loaded machine never drops them)
    if spec["part"] == 0:
        for n in (101, 120, 140):
            specs.insert(0, ("gen", [("yf", 0, 0)] * n, "yield"))
            specs.insert(0, ("co", [("co", 0, 0)] * n, "trap"))
    state = {}
    from vlib import runaway
    guard = runaway.install(2000000)
    for cs in specs:
        if budget.over():
            res.count("budget_cut")
            break
        guard.reset()
        try:
            n = check_chain(cs, res, interp, chains, stackscope, state)
        except runaway.Runaway as ex:
            # decided on steps, not on time: every chain here is finite (at most 140 levels, a few suspensions)
            res.violation(kind="extraction of a finite chain does not terminate", spec=repr(cs), detail=str(ex),
                          largest_count_on_completed_chains=guard.max_seen, interp=interp)
            if res.counters.get("violations", 0) >= 5:
                break
            continue
        res.count("chains")
        if len(cs[1]) > 100:
            res.count("chains_deeper_than_100")
        if any(k[0] == "asend_payload" for k in cs[1]):
            res.count("chains_with_agen_payload")
        res.count("chains_root_" + cs[0])
        if len(res.samples) < 2 and len(cs[1]) >= 2:
            res.sample({"spec": repr(cs), "suspensions": n})
    guard.reset()
    res.counters["max_unwrap_steps_per_chain"] = guard.max_seen
    return res
