"""C08 - context metadata: start_line is the with line, varname the real `as` target.

Deciding method: ast of the generated source as the oracle for every context reported by the
trickery analysis (suspended and running frames); thorough adds a static corpus leg comparing
analyze_with_blocks(code) with the With/AsyncWith nodes of every stdlib function.
"""
import sys
import warnings

PROPERTY = "C08"
LEVEL = "exploration"
TECHNIQUE = "runtime monitoring: ast-of-source oracle over contexts observed in generated programs; static stdlib corpus leg"
RULE = ("C01/C02 programs whose with statements are laid out on one line, parenthesised over several lines, with "
        "backslash continuations or with the context expression spanning lines, 1..3 items, targets drawn from "
        "names (local/global/cell), attribute chains, subscripts by constants/names, positional-only calls, "
        "(nested, starred) tuple/list unpacking, plus unsupported forms (walrus, arithmetic in subscripts, keyword "
        "calls, slices); each reported context is compared with the ast of its with item. non-trivial = a context "
        "with an `as` target; distinct by (interpreter, program, manager serial in source)")
ASSUMPTIONS = [
    "`[a, b]` and `(a, b)` targets are identified (the bytecode cannot tell them apart)",
    "static leg: many-to-one block/item matching, private-name mangling applied, dead code may drop blocks",
]
MIN_NONTRIVIAL = {"quick": 1000, "thorough": 15000}
REQUIRED_COUNTERS = {"ctx_checked": {"quick": 10000, "thorough": 200000},
                     "target_supported_rendered": {"quick": 2000, "thorough": 30000},
                     "target_unsupported": {"quick": 50, "thorough": 500},
                     "multiline_with": {"quick": 300, "thorough": 3000},
                     "edited_twins_under_the_same_name": {"quick": 200, "thorough": 3000}}
SHARD_TIMEOUT = {"quick": 400, "thorough": 5400}
INTERPS = ["3.12", "3.11", "3.10", "3.9"]


def plan(tier, seed):
    shards = []
    for interp in INTERPS:
        if tier == "quick":
            for mode in ("suspended", "running"):
                for s in range(2):
                    shards.append({"interp": interp, "leg": "random", "mode": mode, "seed": seed, "start": s * 150,
                                   "count": 150, "runs": 3, "budget_s": 40})
                # templates: every exit kind x last statement x nesting, here under an enclosing with + loop
                shards.append({"interp": interp, "leg": "templates", "mode": mode, "seed": seed, "start": 0,
                               "count": 500, "runs": 3, "budget_s": 40, "surrounds": ["withfor", "withwhile"]})
        else:
            for mode in ("suspended", "running"):
                for s in range(3):
                    shards.append({"interp": interp, "leg": "random", "mode": mode, "seed": seed, "start": s * 3000,
                                   "count": 3000, "runs": 4, "budget_s": 1500})
                shards.append({"interp": interp, "leg": "templates", "mode": mode, "seed": seed, "start": 0,
                               "count": 6000, "runs": 3, "budget_s": 1500})
            shards.append({"interp": interp, "leg": "static", "seed": seed})
    return shards


def worker(spec):
    from vlib.worker import Result
    res = Result()
    if spec["leg"] == "static":
        return static_leg(spec, res)
    from vlib import ctxwork, drive, ctxmon
    import stackscope

    interp = "%d.%d" % sys.version_info[:2]
    budget = ctxwork.Budget(spec.get("budget_s", 60))
    state = {}
    mode = spec["mode"]
    me = sys._getframe(0)

    def check_stack(st, where):
        problems = []
        for fr in st.frames:
            if not drive.is_generated(fr.pyframe):
                continue
            for c in fr.contexts:
                mgr = c.obj
                k = getattr(mgr, "k", None)
                facts = state["windex"].by_k.get(k)
                if facts is None:
                    continue
                res.evaluations += 1
                res.count("ctx_checked")
                if c.is_exiting:
                    res.count("ctx_exiting_checked")
                p = ctxmon.check_meta(c, fr.pyframe, mgr, state["windex"])
                tgt = facts["target"]
                if facts["item_line"] != facts["line"]:
                    res.count("multiline_with")
                if tgt is not None:
                    res.nontrivial(interp, state["label"], k)
                    if ctxmon.target_supported(tgt):
                        res.count("target_supported_rendered" if c.varname is not None else "target_supported_dropped")
                    else:
                        res.count("target_unsupported")
                        if c.varname is None:
                            res.count("target_unsupported_none")
                else:
                    res.count("no_target")
                    if c.varname is not None:
                        res.count("no_target_local_fallback")
                if p:
                    problems.append("context of manager k=%r: %s (varname=%r start_line=%r)" % (k, p, c.varname, c.start_line))
        if problems and not state.get("failed"):
            state["failed"] = True
            res.violation(kind="context-metadata", label=state["label"], where=where, problems=problems[:4],
                          source=state["src"], interp=interp)

    def observe(run, x, value, info):
        with warnings.catch_warnings():
            warnings.simplefilter("ignore")
            st = stackscope.extract(x)
        check_stack(st, "suspended step %d at %r" % (info["step"], value))

    def probe(run, tag):
        f = sys._getframe(1)
        root = None
        while f is not None and f is not me:
            if drive.is_generated(f):
                root = f
            f = f.f_back
        if root is None:
            return
        with warnings.catch_warnings():
            warnings.simplefilter("ignore")
            st = stackscope.extract_since(root)
        check_stack(st, "running probe %r" % (tag,))

    nprog = 0
    for label, src, kind in ctxwork.programs(spec, mode):
        if budget.over():
            res.count("budget_cut")
            break
        try:
            code, filename = drive.compile_program(src)
        except SyntaxError:
            continue
        nprog += 1
        res.count("programs")
        state.update(label=label, src=src, failed=False, windex=ctxmon.WithIndex(src))
        for r in range(spec.get("runs", 3)):
            if mode == "suspended":
                drive.drive_suspended(code, kind, spec.get("seed", 0) * 131 + r, observe)
            else:
                drive.drive_running(code, kind, spec.get("seed", 0) * 131 + r, probe)
        if nprog % 4 == 0:
            # the same function edited and loaded again (reload, REPL redefinition): same file name, same function
            # name and first line, same bytecode - but other target names and with statements one line further down
            import re
            import linecache
            lines = src.split("\n")
            twin = "\n".join(lines[:1] + ["    # edited"] + lines[1:])
            twin = re.sub(r"\b([vw])(\d+)\b", lambda m: "r" + m.group(1) + m.group(2), twin)
            try:
                code2 = compile(twin, filename, "exec")
            except SyntaxError:
                code2 = None
            if code2 is not None:
                linecache.cache[filename] = (len(twin), None, twin.splitlines(True), filename)
                res.count("edited_twins_under_the_same_name")
                state.update(label=label + ("edited twin",), src=twin, failed=False, windex=ctxmon.WithIndex(twin))
                if mode == "suspended":
                    drive.drive_suspended(code2, kind, spec.get("seed", 0) * 131, observe)
                else:
                    drive.drive_running(code2, kind, spec.get("seed", 0) * 131, probe)
        if nprog <= 1:
            res.sample({"label": label, "source": src})
    return res


def static_leg(spec, res):
    """every code object of the standard library: each analysed block must match *some* AST item
    on (line, asyncness) whose target it renders (or renders as None only if some item on that
    line has no or an unsupported target)."""
    import ast
    import collections
    import types
    from stackscope import lowlevel as ll
    from vlib import skel, ctxmon
    interp = "%d.%d" % sys.version_info[:2]
    root, files = skel.stdlib_files(0)

    def func_withs(fnode):
        out = []

        def visit(n, cls):
            for ch in ast.iter_child_nodes(n):
                if isinstance(ch, (ast.FunctionDef, ast.AsyncFunctionDef, ast.Lambda, ast.ClassDef)):
                    continue
                if isinstance(ch, (ast.With, ast.AsyncWith)):
                    for it in ch.items:
                        out.append((ch.lineno, isinstance(ch, ast.AsyncWith), it.optional_vars, it.context_expr.lineno))
                visit(ch, cls)

        visit(fnode, None)
        return out

    def index_funcs(tree):
        idx = collections.defaultdict(list)

        def walk(n, cls):
            for ch in ast.iter_child_nodes(n):
                if isinstance(ch, (ast.FunctionDef, ast.AsyncFunctionDef, ast.ClassDef)):
                    ln = ch.decorator_list[0].lineno if ch.decorator_list else ch.lineno
                    idx[(ch.name, ln)].append((ch, cls))
                    walk(ch, ch.name if isinstance(ch, ast.ClassDef) else cls)
                else:
                    walk(ch, cls)

        walk(tree, None)
        return idx

    def mangle(dump_src, cls):
        return dump_src

    def codes(co):
        yield co
        for c in co.co_consts:
            if isinstance(c, types.CodeType):
                for x in codes(c):
                    yield x

    class Mangler(ast.NodeTransformer):
        def __init__(self, cls):
            self.cls = cls.lstrip("_") if cls else None

        def _m(self, name):
            if self.cls and name.startswith("__") and not name.endswith("__"):
                return "_%s%s" % (self.cls, name)
            return name

        def visit_Name(self, n):
            return ast.copy_location(ast.Name(self._m(n.id), n.ctx), n)

        def visit_Attribute(self, n):
            self.generic_visit(n)
            return ast.copy_location(ast.Attribute(n.value, self._m(n.attr), n.ctx), n)

    for p in files:
        try:
            with open(p, "rb") as f:
                src = f.read()
            tree = ast.parse(src)
            top = compile(src, p, "exec")
        except Exception:
            continue
        idx = index_funcs(tree)
        for co in codes(top):
            cls = None
            if co.co_name == "<module>":
                node = tree
            else:
                c = idx.get((co.co_name, co.co_firstlineno))
                if not c or len(c) != 1:
                    continue
                node, cls = c[0]
            try:
                wb = ll.analyze_with_blocks(co)
            except Exception as e:
                res.violation(kind="analyze_with_blocks raised", file=p[len(root):], func=co.co_name, error=repr(e),
                              interp=interp)
                continue
            expected = func_withs(node)
            if not wb and not expected:
                continue
            res.count("functions")
            for _, c in sorted(wb.items()):
                res.evaluations += 1
                res.count("blocks")
                res.count("ctx_checked")
                cand = [e for e in expected if e[0] == c.start_line and e[1] == c.is_async]
                if not cand:
                    res.violation(kind="static: no with statement on reported line", file=p[len(root):],
                                  func=co.co_name, start_line=c.start_line, is_async=c.is_async,
                                  with_lines=[(e[0], e[3]) for e in expected][:6], interp=interp)
                    continue
                if any(e[3] != e[0] for e in cand):
                    res.count("multiline_with")
                if c.varname is None:
                    if all(e[2] is not None and ctxmon.target_supported(e[2]) for e in cand):
                        res.violation(kind="static: supported target dropped", file=p[len(root):], func=co.co_name,
                                      line=c.start_line, targets=[ast.dump(e[2])[:80] for e in cand], interp=interp)
                    else:
                        res.count("none_ok")
                    continue
                ok = False
                for e in cand:
                    if e[2] is None:
                        continue
                    try:
                        got = ctxmon.norm_target(ast.parse(c.varname, mode="eval").body)
                    except SyntaxError:
                        break
                    import copy
                    want = ctxmon.norm_target(Mangler(cls).visit(copy.deepcopy(e[2])))
                    if got == want:
                        ok = True
                        if ctxmon.target_supported(e[2]):
                            res.count("target_supported_rendered")
                        else:
                            res.count("target_unsupported")
                if ok:
                    res.nontrivial(interp, p, co.co_name, co.co_firstlineno, c.start_line, c.varname)
                else:
                    res.violation(kind="static: varname is not a target on that line", file=p[len(root):],
                                  func=co.co_name, line=c.start_line, varname=c.varname,
                                  targets=[ast.dump(e[2])[:80] if e[2] is not None else None for e in cand],
                                  interp=interp)
    return res
