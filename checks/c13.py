"""C13 - extraction options are scoped to their call tree and thread; stubs honoured.

Deciding method: a stack-discipline model.  Hooks observe the options in force through what the
public API reveals - extract_child(Token, for_task=True) is a stub unless recursion was requested,
and a nested extraction of a fixed parked generator has contexts iff with_contexts - and every
observation must equal the options of the innermost enclosing extract / extract_outermost /
outside-fill_context on the observing thread.  Threads are interleaved at every observation
point by a turn-taking controller.
"""
import sys

PROPERTY = "C13"
LEVEL = "exploration"
TECHNIQUE = "runtime monitoring: stack-discipline model of option scoping, observed from hooks; controller-driven thread interleavings"
RULE = ("random well-nested trees (depth <= N) of extract / extract_outermost / extract_child(for_task False|True) / "
        "fill_context invocations made from hooks, all four option combinations per level, hooks that raise at any "
        "level, extract_outermost calls that raise (no frames); single-threaded, and 2-4 threads interleaved at every "
        "observation point by a random turn-taking schedule. non-trivial = observation made inside a nested call whose "
        "options differ from its parent's, or after a raising child returned; distinct by (tree text, node, position)")
ASSUMPTIONS = ["options are observed only through public behaviour (stub vs populated child stacks, presence of contexts)"]
MIN_NONTRIVIAL = {"quick": 3000, "thorough": 60000}
REQUIRED_COUNTERS = {"observations": {"quick": 20000, "thorough": 400000},
                     "restored_after_raise": {"quick": 500, "thorough": 10000},
                     "refusals_outside_checked": {"quick": 500, "thorough": 10000},
                     "threaded_observations": {"quick": 3000, "thorough": 60000},
                     "thread_switches_between_observations": {"quick": 1000, "thorough": 20000},
                     "stub_checks": {"quick": 3000, "thorough": 60000},
                     "stubs_filled_in_by_the_caller_afterwards": {"quick": 500, "thorough": 10000},
                     "linepause_cases": {"quick": 50, "thorough": 50},
                     "observations_through_contextvars": {"quick": 1000, "thorough": 20000},
                     "nodes_below_a_generator_based_manager": {"quick": 500, "thorough": 10000}}
SHARD_TIMEOUT = {"quick": 400, "thorough": 5400}
INTERPS = ["3.12", "3.11", "3.10", "3.9"]


def plan(tier, seed):
    shards = []
    for interp in INTERPS:
        for s in range(4 if interp == "3.12" else 2):
            shards.append({"interp": interp, "seed": seed * 100 + s, "depth": 3 if tier == "quick" else 4,
                           "cases": 3000 if tier == "quick" else 60000, "thread_cases": 500 if tier == "quick" else 10000,
                           "budget_s": 40 if tier == "quick" else 1500})
    return shards


def worker(spec):
    import contextlib
    import random
    import threading
    import warnings
    from vlib.worker import Result
    from vlib import ctxwork
    import stackscope
    from stackscope import (extract, extract_outermost, extract_child, fill_context, Context, unwrap_stackitem,
                            elaborate_context)

    res = Result()
    interp = "%d.%d" % sys.version_info[:2]
    budget = ctxwork.Budget(spec.get("budget_s", 60))
    rng = random.Random(spec["seed"])

    class CM(object):
        def __enter__(self):
            return self

        def __exit__(self, *a):
            return False

    def parked():
        with CM():
            yield 1

    PARKED = parked()
    next(PARKED)

    class Token(object):
        pass

    @unwrap_stackitem.register(Token)
    def _unwrap_token(t):
        return PARKED

    class HookBoom(Exception):
        pass

    class NodeItem(object):
        def __init__(self, node):
            self.node = node

    class NodeMgr(object):
        def __init__(self, node):
            self.node = node

        def __enter__(self):
            return self

        def __exit__(self, *a):
            pass

    tls = threading.local()

    def checkpoint():
        cp = getattr(tls, "checkpoint", None)
        if cp is not None:
            cp()

    import contextvars

    def observe(node, pos):
        checkpoint()
        if pos == 0 and node["id"] % 3 == 0:
            # (a) the same observation made through a *fresh* contextvars.Context on this thread: it is
            #     still invoked within this extraction, on this thread
            try:
                s_ctx = contextvars.Context().run(extract_child, Token(), for_task=False)
                tls.obs.append((node["id"], "ctx", bool(s_ctx.frames and s_ctx.frames[0].contexts),
                                tuple(node["eff"])[1], True, tuple(node["eff"])))
            except RuntimeError as ex:
                tls.problems.append("extract_child refused inside an extraction when called through a fresh "
                                    "contextvars.Context (node %d): %r" % (node["id"], ex))
            # (b) a helper thread started from the hook with a *copy* of the current context (the
            #     to_thread pattern) is outside any extraction: extract_child must refuse there
            box = {}

            def helper():
                try:
                    extract_child(Token(), for_task=False)
                    box["r"] = "ran"
                except RuntimeError:
                    box["r"] = "refused"
                except BaseException as ex:  # noqa
                    box["r"] = repr(ex)

            ctx = contextvars.copy_context()
            th = threading.Thread(target=ctx.run, args=(helper,))
            th.start()
            th.join(30)
            tls.ctx_checks = getattr(tls, "ctx_checks", 0) + 1
            if box.get("r") != "refused":
                tls.problems.append("extract_child on a helper thread (copied context) did not refuse: %r" % box.get("r"))
        with warnings.catch_warnings():
            warnings.simplefilter("ignore")
            s = extract_child(Token(), for_task=True)
            checkpoint()
            s2 = extract_child(Token(), for_task=False)
        rc_obs = bool(s.frames)
        wc_obs = bool(s2.frames and s2.frames[0].contexts)
        stub_ok = True
        if not rc_obs:
            stub_ok = isinstance(s.root, Token) and not s.frames and s.leaf is None and s.error is None
            if stub_ok and len(tls.obs) % 3 == 0:
                # what a tree viewer does when the user expands a node: the stub is the caller's object now,
                # and filling it in must not show in any other stack
                s.frames.extend(s2.frames)
                tls.filled = getattr(tls, "filled", 0) + 1
        tls.obs.append((node["id"], pos, wc_obs, rc_obs, stub_ok, tuple(node["eff"])))

    def body(node):
        observe(node, 0)
        for i, ch in enumerate(node["children"]):
            raised = run_child(ch, node)
            observe(node, i + 1)
            if raised:
                tls.after_raise += 1
        if node["raises"]:
            raise HookBoom(node["id"])
        return PARKED if node["frames"] else []

    def run_child(ch, parent):
        """invoke a nested API from inside a hook; returns True if it raised"""
        k = ch["kind"]
        checkpoint()
        try:
            with warnings.catch_warnings():
                warnings.simplefilter("ignore")
                if k == "extract":
                    s = extract(NodeItem(ch), with_contexts=ch["wc"], recurse_child_tasks=ch["rc"])
                    if ch["raises"] and not isinstance(s.error, HookBoom):
                        tls.problems.append("raising hook not reported in .error of the nested extract (node %d)" % ch["id"])
                    if not ch["wc"] and any(f.contexts for f in s.frames):
                        tls.problems.append("with_contexts=False left contexts")
                    return bool(ch["raises"])
                if k == "outermost":
                    extract_outermost(NodeItem(ch), with_contexts=ch["wc"], recurse_child_tasks=ch["rc"])
                    return False
                if k == "child":
                    extract_child(NodeItem(ch), for_task=False)
                    return bool(ch["raises"])
                if k == "child_task":
                    s = extract_child(NodeItem(ch), for_task=True)
                    tls.stub_checks += 1
                    if not parent["eff"][1]:
                        if s.frames or not isinstance(s.root, NodeItem) or s.leaf is not None or s.error is not None:
                            tls.problems.append("for_task=True without recursion is not a bare stub (node %d)" % ch["id"])
                    return bool(ch["raises"])
                if k == "fill":
                    fill_context(Context(obj=NodeMgr(ch), is_async=False))
                    return False
                if k == "gcm":
                    # through the real contextlib glue: a generator-based manager whose generator holds the node's
                    # manager open; the options in force below it are still those of the enclosing extraction
                    g = gcm_carrier(ch)
                    next(g)
                    try:
                        s = extract_child(g, for_task=False)
                        tls.gcm_nodes = getattr(tls, "gcm_nodes", 0) + 1
                    finally:
                        g.close()
                    return bool(ch["raises"])
        except HookBoom:
            return True
        except RuntimeError:
            return True  # extract_outermost with no frames
        return False

    import contextlib

    @contextlib.contextmanager
    def gcm_holding(mgr):
        with mgr:
            yield

    def gcm_carrier(ch):
        # a parked generator whose frame holds a generator-based manager open, whose generator in turn holds
        # the node's manager open
        with gcm_holding(NodeMgr(ch)):
            yield 1

    @unwrap_stackitem.register(NodeItem)
    def _unwrap_node(it):
        return body(it.node)

    @elaborate_context.register(NodeMgr)
    def _elab_node(mgr, ctx):
        body(mgr.node)

    counter = [0]

    def gen(depth, parent_eff, top):
        counter[0] += 1
        kinds = ["extract", "extract", "outermost", "fill"] if top else \
            ["extract", "extract", "outermost", "child", "child_task", "fill"] + (["gcm", "gcm"] if parent_eff[0] else [])
        k = rng.choice(kinds)
        wc = rng.random() < 0.5
        rc = rng.random() < 0.5
        if k in ("extract", "outermost"):
            eff = (wc, rc)
        elif k == "fill" and top:
            eff = (True, False)
        else:
            eff = tuple(parent_eff)
        node = {"id": counter[0], "kind": k, "wc": wc, "rc": rc, "eff": eff,
                "raises": rng.random() < 0.2, "frames": rng.random() < 0.7, "children": []}
        if depth > 1:
            for _ in range(rng.choice((0, 1, 1, 2, 3))):
                node["children"].append(gen(depth - 1, eff, False))
        return node

    def describe(node):
        return "%s%s%s[%s]" % (node["kind"], (1 if node["wc"] else 0, 1 if node["rc"] else 0),
                               "!" if node["raises"] else "", ",".join(describe(c) for c in node["children"]))

    def run_top(node):
        """execute a top-level node; returns list of problems"""
        tls.obs = []
        tls.problems = []
        tls.after_raise = 0
        tls.stub_checks = 0
        tls.gcm_nodes = 0
        k = node["kind"]
        checkpoint()
        try:
            with warnings.catch_warnings():
                warnings.simplefilter("ignore")
                if k == "extract":
                    s = extract(NodeItem(node), with_contexts=node["wc"], recurse_child_tasks=node["rc"])
                    if node["frames"] and not node["raises"]:
                        s_other = None
                elif k == "outermost":
                    extract_outermost(NodeItem(node), with_contexts=node["wc"], recurse_child_tasks=node["rc"])
                else:
                    fill_context(Context(obj=NodeMgr(node), is_async=False))
        except (HookBoom, RuntimeError):
            pass
        problems = list(tls.problems)
        for nid, pos, wc_obs, rc_obs, stub_ok, eff in tls.obs:
            if pos == "ctx":
                if wc_obs != eff[0]:
                    problems.append("node %d: through a fresh contextvars.Context with_contexts=%r, model %r" % (
                        nid, wc_obs, eff[0]))
                continue
            if (wc_obs, rc_obs) != eff:
                problems.append("node %d pos %d observed (with_contexts=%r, recurse=%r), model says %r" % (
                    nid, pos, wc_obs, rc_obs, eff))
            if not stub_ok:
                problems.append("node %d: stub carries more than root" % nid)
        # outside any extraction extract_child must refuse
        try:
            extract_child(Token(), for_task=False)
            problems.append("extract_child did not refuse outside an extraction")
        except RuntimeError:
            pass
        except Exception as ex:
            # an internal assertion tripping further down is not a refusal (and vanishes under -O)
            problems.append("extract_child outside an extraction did not refuse; it failed later with %r" % (ex,))
        res.count("nodes_below_a_generator_based_manager", tls.gcm_nodes)
        return problems, list(tls.obs), tls.after_raise, tls.stub_checks

    def account(node, obs, after_raise, stubs, threaded):
        res.evaluations += len(obs)   # an evaluation = one observation of the options in force
        res.count("observations", len(obs))
        res.count("restored_after_raise", after_raise)
        res.count("refusals_outside_checked")
        res.count("stub_checks", stubs + len(obs))
        res.count("stubs_filled_in_by_the_caller_afterwards", len([1 for i, o in enumerate(obs) if not o[3] and o[4] and i % 3 == 0]))
        if threaded:
            res.count("threaded_observations", len(obs))
        desc = describe(node)
        index = {}

        def walk(n, parent):
            index[n["id"]] = (n, parent)
            for c in n["children"]:
                walk(c, n)
        walk(node, None)
        for nid, pos, wc_obs, rc_obs, stub_ok, eff in obs:
            if pos == "ctx":
                res.count("observations_through_contextvars")
                continue
            n, parent = index[nid]
            if (parent is not None and tuple(parent["eff"]) != tuple(n["eff"])) or pos > 0:
                res.nontrivial(desc, nid, pos)

    # ---- single-threaded ----------------------------------------------------------------------------
    for case in range(spec["cases"]):
        if budget.over(0.5):
            res.count("budget_cut")
            break
        node = gen(spec["depth"], (None, None), True)
        problems, obs, ar, stubs = run_top(node)
        account(node, obs, ar, stubs, False)
        if problems:
            res.violation(kind="option scoping", tree=describe(node), problems=problems[:4], interp=interp)
        if len(res.samples) < 2 and len(obs) > 6:
            res.sample({"tree": describe(node), "observations": len(obs)})

    # frames equal with and without contexts
    for rep in range(20):
        a = extract(PARKED, with_contexts=True)
        b = extract(PARKED, with_contexts=False)
        if [f.pyframe for f in a.frames] != [f.pyframe for f in b.frames] or any(f.contexts for f in b.frames) \
                or not a.frames[0].contexts:
            res.violation(kind="with_contexts=False changes frames or leaves contexts", interp=interp)

    # ---- threads under a turn-taking controller --------------------------------------------------------
    for case in range(spec["thread_cases"]):
        if budget.over(0.85):
            res.count("budget_cut")
            break
        nthreads = rng.choice((2, 2, 3, 4))
        progs = [[gen(min(spec["depth"], 3), (None, None), True) for _ in range(rng.choice((1, 2)))]
                 for _ in range(nthreads)]
        go = [threading.Semaphore(0) for _ in range(nthreads)]
        arrived = threading.Semaphore(0)
        finished = [False] * nthreads
        results = [None] * nthreads
        errors = []

        def runner(i):
            def cp():
                arrived.release()
                go[i].acquire()
            tls.checkpoint = cp
            cp()
            out = []
            try:
                for node in progs[i]:
                    out.append((node,) + run_top(node))
            except BaseException as ex:  # noqa
                errors.append(repr(ex))
            results[i] = out
            finished[i] = True
            tls.checkpoint = None
            arrived.release()

        threads = [threading.Thread(target=runner, args=(i,), daemon=True) for i in range(nthreads)]
        for t in threads:
            t.start()
        for _ in range(nthreads):
            arrived.acquire()
        last = None
        switches = 0
        steps = 0
        while not all(finished):
            alive = [i for i in range(nthreads) if not finished[i]]
            i = rng.choice(alive)
            if last is not None and i != last:
                switches += 1
            last = i
            go[i].release()
            if not arrived.acquire(timeout=120):
                errors.append("controller watchdog")
                break
            steps += 1
        for t in threads:
            t.join(10)
        res.count("thread_cases")
        res.count("thread_switches_between_observations", switches)
        if errors:
            res.inconclusive.append("thread harness: %r" % errors[:2])
            continue
        for i in range(nthreads):
            for node, problems, obs, ar, stubs in results[i] or []:
                account(node, obs, ar, stubs, True)
                if problems:
                    res.violation(kind="option scoping across threads", thread=i, threads=nthreads,
                                  tree=describe(node), problems=problems[:4], interp=interp)
    # ---- line-level pauses inside the option push/restore code --------------------------------------
    # Thread A is stopped at its k-th executed line inside extract / extract_outermost / extract_child /
    # fill_context / ExtractOptions.push (sys.settrace in that thread only) while thread B performs a
    # whole extraction with other options; then A resumes.  Each thread must have observed only its own.
    from stackscope import _extract as EX
    pause_codes = {EX.extract.__code__, EX.extract_outermost.__code__, EX.extract_child.__code__,
                   EX.fill_context.__code__}
    push = EX.ExtractOptions.push
    pause_codes.add(getattr(push, "__wrapped__", push).__code__)
    for k in range(1, 120):
        if budget.over():
            res.count("budget_cut")
            break
        progA = gen(min(spec["depth"], 3), (None, None), True)
        progB = gen(min(spec["depth"], 3), (None, None), True)
        paused = threading.Event()
        resume = threading.Event()
        st = {"n": 0, "hit": False}
        out = {}

        def local_tracer(frame, event, arg):
            if event == "line" and not st["hit"]:
                st["n"] += 1
                if st["n"] == k:
                    st["hit"] = True
                    paused.set()
                    resume.wait(30)
            return local_tracer

        def global_tracer(frame, event, arg):
            return local_tracer if frame.f_code in pause_codes else None

        def thread_a():
            tls.checkpoint = None
            sys.settrace(global_tracer)
            try:
                out["a"] = run_top(progA)
            except BaseException as ex:  # noqa
                out["a_exc"] = repr(ex)
            finally:
                sys.settrace(None)

        def thread_b():
            tls.checkpoint = None
            try:
                out["b"] = run_top(progB)
            except BaseException as ex:  # noqa
                out["b_exc"] = repr(ex)

        ta = threading.Thread(target=thread_a, daemon=True)
        ta.start()
        if not paused.wait(5):
            resume.set()
            ta.join(30)
            if k > 40:
                break
            continue
        tb = threading.Thread(target=thread_b, daemon=True)
        tb.start()
        tb.join(30)
        resume.set()
        ta.join(30)
        res.count("linepause_cases")
        for who, prog in (("a", progA), ("b", progB)):
            if who + "_exc" in out:
                res.violation(kind="option scoping (line pause)", thread=who, error=out[who + "_exc"], interp=interp)
                continue
            problems, obs, ar, stubs = out[who]
            account(prog, obs, ar, stubs, True)
            if problems:
                res.violation(kind="option scoping (line pause)", thread=who, paused_at_line_event=k,
                              tree=describe(prog), problems=problems[:4], interp=interp)
    return res
