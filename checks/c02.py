"""C02 - contexts of a frame running on the calling thread are exact, also mid-enter/exit.

Deciding method: shadow-log oracle evaluated from probes that run *inside* the target: at every
call site of the generated body and inside every __enter__/__exit__/__aenter__/__aexit__, the
probe calls extract_since(outermost generated frame) and lowlevel.contexts_active_in_frame for
every generated ancestor frame and compares with the fold over the managers' event log.
"""
import sys
import warnings

PROPERTY = "C02"
LEVEL = "exploration"
RULE = ("same program space as C01 with observation points = probe calls P(k) between all statements and inside "
        "every __enter__/__exit__/__aenter__/__aexit__; kinds sync function, running generator, running "
        "coroutine, running async generator, module-level and class-body code; every generated ancestor "
        "frame of the probe is checked through extract_since() and contexts_active_in_frame(); non-trivial = "
        "probe with >=1 expected context; distinct by (interpreter, program, run seed, probe index)")
ASSUMPTIONS = [
    "ground truth is the managers' own enter/exit event log",
    "decides the generated programs only",
    "exit methods declare an explicit first parameter that stays bound to the manager (the exiting manager's obj is, "
    "by documented design, read off the callee frame's first argument)",
]
MIN_NONTRIVIAL = {"quick": 5000, "thorough": 100000}
REQUIRED_COUNTERS = {"probe_in_enter": {"quick": 300, "thorough": 3000},
                     "probe_in_exit_normal": {"quick": 300, "thorough": 3000},
                     "probe_in_exit_exc": {"quick": 100, "thorough": 1000},
                     "probe_in_aexit": {"quick": 100, "thorough": 1000},
                     "probe_in_unpack_iter": {"quick": 100, "thorough": 1000},
                     "probe_in_result_del": {"quick": 100, "thorough": 1000},
                     "frames_with_c_level_manager": {"quick": 300, "thorough": 3000},
                     "frames_with_alias_named_exit": {"quick": 300, "thorough": 3000}}
SHARD_TIMEOUT = {"quick": 400, "thorough": 5400}
INTERPS = ["3.12", "3.11", "3.10", "3.9"]


def plan(tier, seed):
    from vlib.ctxwork import standard_plan
    quick = {
        "random": (2, 120, {"runs": 3, "budget_s": 40}),
        "templates": (1, 400, {"runs": 3, "budget_s": 40}),
        "skeleton": (1, 350, {"runs": 3, "asyncify": True, "budget_s": 40, "corpus_seed": seed}),
    }
    thorough = {
        "random": (4, 2500, {"runs": 6, "budget_s": 1500}),
        "templates": (2, 16000, {"runs": 4, "budget_s": 1500}),
        "skeleton": (3, 1200, {"runs": 6, "asyncify": True, "budget_s": 1500, "corpus_seed": seed}),
        "skeleton:aswritten": (1, 3000, {"runs": 6, "asyncify": False, "kind": "sync", "budget_s": 1500, "corpus_seed": seed}),
        "skeleton:gen": (1, 3000, {"runs": 4, "asyncify": False, "kind": "gen", "budget_s": 1500, "corpus_seed": seed}),
    }
    return standard_plan(tier, seed, INTERPS, "running", quick, thorough)


def worker(spec):
    from vlib.worker import Result
    from vlib import ctxwork, drive, ctxmon, shadow
    import os
    import stackscope
    from stackscope import lowlevel as ll

    res = Result()
    interp = "%d.%d" % sys.version_info[:2]
    budget = ctxwork.Budget(spec.get("budget_s", 60))
    state = {"nprobe": 0}
    me = sys._getframe(0)

    def probe(run, tag):
        # manual walk: generated ancestor frames of the probe, outermost first
        chain = []
        f = sys._getframe(1)
        while f is not None and f is not me:
            chain.append(f)
            f = f.f_back
        chain.reverse()
        gen_idx = [i for i, fr in enumerate(chain) if drive.is_generated(fr)]
        if not gen_idx:
            return
        root = chain[gen_idx[0]]
        res.evaluations += 1
        state["nprobe"] += 1
        with warnings.catch_warnings(record=True) as w:
            warnings.simplefilter("always")
            st = stackscope.extract_since(root)
        problems = []
        iw = ctxmon.insp_warnings(w)
        if iw:
            problems.append("InspectionWarning: %s" % iw[0])
        if st.error is not None:
            problems.append("Stack.error: %r" % (st.error,))
        # the extracted frames must be the manual walk from root to this probe function
        want_frames = chain[gen_idx[0]:]
        got_frames = [fr.pyframe for fr in st.frames]
        # extract_since ends with the caller of extract_since = this probe frame
        if got_frames[: len(want_frames)] != want_frames:
            problems.append("frames differ from the f_back walk")
        nontrivial = False
        for i, fr in enumerate(st.frames):
            if i >= len(want_frames):
                break
            exp = run.truth(id(fr.pyframe))
            kinds = set(type(m).__name__ for m, _, _ in exp)
            if "SC" in kinds:
                res.count("frames_with_c_level_manager")
            if "SX" in kinds or "AX" in kinds:
                res.count("frames_with_alias_named_exit")
            if "SF" in kinds or "AF" in kinds:
                res.count("frames_with_falsy_manager")
            if len(exp) >= 11:
                res.count("obs_with_11_or_more_active_contexts")
            if exp:
                nontrivial = True
            p = ctxmon.compare_exact(fr.contexts, exp)
            if p:
                problems.append("frame %d (%s): %s; got %r expected %r" % (
                    i, fr.funcname, p, [ctxmon.brief_ctx(c) for c in fr.contexts], ctxmon.brief_truth(exp)))
            nxt = st.frames[i + 1].pyframe if i + 1 < len(st.frames) else None
            with warnings.catch_warnings(record=True) as w2:
                warnings.simplefilter("always")
                direct = ll.contexts_active_in_frame(fr.pyframe, None, nxt)
            if ctxmon.insp_warnings(w2) and not iw:
                problems.append("InspectionWarning (lowlevel): %s" % ctxmon.insp_warnings(w2)[0])
            p2 = ctxmon.compare_exact(direct, exp)
            if p2 and not p:
                problems.append("frame %d lowlevel entry point: %s" % (i, p2))
            res.count("frames_checked")
        res.count("probes")
        if nontrivial:
            res.count("probes_nontrivial")
            res.nontrivial(interp, state["label"], state["rseed"], state["nprobe"])
        if tag[0] == "unpack-iter":
            res.count("probe_in_unpack_iter")
        elif tag[0] == "result-del":
            res.count("probe_in_result_del")
        if tag[0] in ("enter", "aenter"):
            res.count("probe_in_enter")
        elif tag[0] in ("exit", "aexit"):
            res.count("probe_in_exit_exc" if tag[2] else "probe_in_exit_normal")
            if tag[0] == "aexit":
                res.count("probe_in_aexit")
        if len(gen_idx) >= 2:
            res.count("probes_nested_generated_frames")
        if problems and not state.get("failed"):
            state["failed"] = True
            res.violation(kind="contexts-mismatch-running", label=state["label"], run_seed=state["rseed"],
                          probe=state["nprobe"], at=repr(tag), problems=problems[:4], source=state["src"],
                          interp=interp)

    nprog = 0
    for label, src, kind in ctxwork.programs(spec, "running"):
        if budget.over():
            res.count("budget_cut")
            break
        try:
            code, filename = drive.compile_program(src)
        except SyntaxError:
            res.count("syntaxerror")
            continue
        nprog += 1
        res.count("programs")
        res.count("programs_" + spec["leg"])
        res.count("kind_" + kind)
        state.update(label=label, src=src, failed=False)
        for r in range(spec.get("runs", 3)):
            state["rseed"] = r
            state["nprobe"] = 0
            run = shadow.Run(spec.get("seed", 0) * 131 + r, "running")
            run.keep_traceback = True
            run = drive.drive_running(code, kind, spec.get("seed", 0) * 131 + r, probe, run=run)
            res.count("end_" + (run.end[0] if run.end else "none"))
            tb = getattr(run, "tb", None)
            run.tb = None
            if tb is not None and state.get("postmortems", 0) < 150:
                # history for the next runs of the same code: a post-mortem look at the *finished* frames the
                # exception left (a debugger, a crash reporter).  What it returns is not judged here - dead frames
                # are outside the property - but whatever it leaves behind must not change what later, live frames
                # of the same functions report.
                state["postmortems"] = state.get("postmortems", 0) + 1
                devnull = open(os.devnull, "w")
                saved = sys.stderr
                sys.stderr = devnull
                try:
                    while tb is not None:
                        if drive.is_generated(tb.tb_frame):
                            res.count("postmortem_looks_at_finished_frames")
                            with warnings.catch_warnings():
                                warnings.simplefilter("ignore")
                                try:
                                    ll.contexts_active_in_frame(tb.tb_frame)
                                    stackscope.extract_until(tb.tb_frame, limit=1)
                                except Exception:
                                    res.count("postmortem_looks_that_raised")
                        tb = tb.tb_next
                finally:
                    sys.stderr = saved
                    devnull.close()
            tb = None
        if nprog <= 2:
            res.sample({"label": label, "source": src, "runs": spec.get("runs", 3)})
    return res
