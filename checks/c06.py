"""C06 - extraction is a pure observation: no perturbation, repeatable, nothing retained.

Deciding method: twin runs (every program executed unobserved and observed at a random subset
of its suspension/probe points, 1-3 extractions each, both analysis modes; behavioural traces
must be identical), equality of repeated extractions, reference-count / weakref retention
monitors around every extraction, async-generator finalizer hook, and crash detection
(faulthandler; thorough: PYTHONMALLOC=debug and valgrind memcheck legs).
"""
import sys
import warnings

PROPERTY = "C06"
LEVEL = "exploration"
TECHNIQUE = ("runtime monitoring: twin-run trace comparison, refcount/weakref retention monitors, asyncgen "
             "finalizer hook; crash detection with faulthandler, debug allocator and valgrind memcheck")
RULE = ("C01/C02 programs; each (program, seed) is run twice with identical decisions - unobserved and with extraction "
        "at a random subset of suspension/probe points repeated 1-3 times, in trickery and in referents mode; the "
        "event traces (values, enter/exit events, exceptions, result) must be equal; around every extraction the "
        "refcounts of live managers, of for-loop iterators that live only on the value stack and of the frame "
        "return to baseline once results are dropped, and interpreter-wide settings (collector on/off and thresholds, "
        "trace/profile functions, recursion limit, switch interval) are as before; after the target finishes all managers/iterators die. "
        "non-trivial = twin pair with >=1 extraction at a point with >=1 active context; distinct by "
        "(interpreter, mode, program, seed)")
ASSUMPTIONS = [
    "observed and unobserved runs draw decisions from equal seeded PRNGs that the observer never touches",
    "targets do not retain the dict returned by locals() (reading frame.f_locals refreshes that snapshot on CPython "
    "<= 3.12, which is how every frame inspector works)",
    "valgrind/debug-allocator legs see heap staleness only, not staleness inside CPython's data-stack chunks",
]
MIN_NONTRIVIAL = {"quick": 1500, "thorough": 30000}
REQUIRED_COUNTERS = {"twin_pairs": {"quick": 3000, "thorough": 50000},
                     "extractions_in_observed_runs": {"quick": 10000, "thorough": 200000},
                     "refcount_checks": {"quick": 5000, "thorough": 100000},
                     "valuestack_iters_checked": {"quick": 500, "thorough": 5000},
                     "weakref_death_checks": {"quick": 1000, "thorough": 20000},
                     "refcount_checks_without_collector": {"quick": 2000, "thorough": 30000},
                     "first_extraction_of_the_process_checked": {"quick": 8, "thorough": 8},
                     "interpreter_settings_checks_gc_on": {"quick": 1000, "thorough": 20000},
                     "interpreter_settings_checks_gc_off": {"quick": 1000, "thorough": 20000},
                     "tree_objects_checked_for_retention": {"quick": 5000, "thorough": 100000}}
SHARD_TIMEOUT = {"quick": 400, "thorough": 5400}
INTERPS = ["3.12", "3.11", "3.10", "3.9"]


def plan(tier, seed):
    shards = []
    for interp in INTERPS:
        if tier == "quick":
            for mode, trick in (("suspended", True), ("suspended", False), ("running", True)):
                shards.append({"interp": interp, "leg": "random", "mode": mode, "trickery": trick, "seed": seed,
                               "start": 0, "count": 120, "runs": 3, "budget_s": 35})
            shards.append({"interp": interp, "leg": "skeleton", "mode": "suspended", "trickery": True, "seed": seed,
                           "start": 0, "count": 300, "runs": 3, "asyncify": True, "corpus_seed": seed, "budget_s": 35})
            for trick in (True, False):
                shards.append({"interp": interp, "leg": "trees", "mode": "suspended", "trickery": trick, "seed": seed,
                               "count": 400, "budget_s": 30})
        else:
            for mode, trick in (("suspended", True), ("suspended", False), ("running", True)):
                for s in range(2):
                    shards.append({"interp": interp, "leg": "random", "mode": mode, "trickery": trick, "seed": seed,
                                   "start": s * 2000, "count": 2000, "runs": 4, "budget_s": 1200})
                shards.append({"interp": interp, "leg": "skeleton", "mode": mode, "trickery": trick, "seed": seed,
                               "start": 0, "count": 2500, "runs": 4, "asyncify": True, "corpus_seed": seed,
                               "budget_s": 1200})
            for trick in (True, False):
                shards.append({"interp": interp, "leg": "trees", "mode": "suspended", "trickery": trick, "seed": seed,
                               "count": 20000, "budget_s": 900})
            # crash legs: same workload under the debug allocator, and a slice under valgrind
            shards.append({"interp": interp, "leg": "random", "mode": "suspended", "trickery": True, "seed": seed + 1,
                           "start": 0, "count": 1500, "runs": 3, "budget_s": 900, "env": {"PYTHONMALLOC": "debug"},
                           "tag": "debug-allocator"})
            shards.append({"interp": interp, "leg": "random", "mode": "running", "trickery": True, "seed": seed + 1,
                           "start": 0, "count": 1500, "runs": 3, "budget_s": 900, "env": {"PYTHONMALLOC": "debug"},
                           "tag": "debug-allocator"})
        if tier == "thorough" and interp == "3.12":
            import os
            from vlib import orch
            log = os.path.join(orch.WORK, "C06", "valgrind.%p.log")
            shards.append({"interp": interp, "leg": "random", "mode": "suspended", "trickery": True, "seed": seed + 2,
                           "start": 0, "count": 40, "runs": 2, "budget_s": 2400, "tag": "valgrind",
                           "env": {"PYTHONMALLOC": "malloc"}, "timeout": 3000,
                           "wrapper": ["valgrind", "--tool=memcheck", "--error-exitcode=99", "--log-file=" + log,
                                       "--suppressions=/dev/null", "--num-callers=30"]})
    return shards


def classify_crash(spec, signum, tail):
    if "stackscope" in tail:
        return {"kind": "crash", "signal": signum, "tag": spec.get("tag"),
                "detail": "worker killed by signal %d with stackscope frames on a thread" % signum}
    return None


def worker(spec):
    import gc
    import threading
    import weakref
    # arm the async generator hooks before stackscope is imported (its glue creates one)
    unclosed = []
    seen_ag = []

    def firstiter(ag):
        seen_ag.append(ag.ag_code.co_filename)

    def finalizer(ag):
        unclosed.append((ag.ag_code.co_filename, ag.ag_code.co_name))

    sys.set_asyncgen_hooks(firstiter=firstiter, finalizer=finalizer)

    from vlib.worker import Result
    from vlib import ctxwork, drive, ctxmon, shadow
    import stackscope
    from stackscope import lowlevel as ll
    import random

    res = Result()
    interp = "%d.%d" % sys.version_info[:2]
    budget = ctxwork.Budget(spec.get("budget_s", 60))
    mode = spec["mode"]
    # automatic collections would promote the monitor's own short-lived cycles to older
    # generations at unpredictable moments; collect explicitly at the snapshot points instead
    gc.disable()
    ll.set_trickery_enabled(True if spec["trickery"] else False)
    modename = "trickery" if spec["trickery"] else "referents"
    state = {}
    me = sys._getframe(0)

    # the very first extraction of this process (stackscope finishes importing its frame-layout module and
    # runs its self-tests during it): afterwards nothing may hold on to the target, collector or not
    def first_extraction():
        class FirstM(object):
            def __enter__(self):
                return self

            def __exit__(self, *a):
                pass

        def first_target(m):
            with m:
                yield 1

        m = FirstM()
        g = first_target(m)
        next(g)
        gc.collect()
        # (the manager is not counted: reading frame.f_locals makes CPython keep a snapshot dict of the
        # locals on the frame - the interpreter's doing, see the warm-up below)
        base = (sys.getrefcount(g), sys.getrefcount(g.gi_frame))
        with warnings.catch_warnings():
            warnings.simplefilter("ignore")
            st = stackscope.extract(g)
        ok_ctx = len(st.frames) == 1 and [c.obj for c in st.frames[0].contexts] == [m]
        del st
        now = (sys.getrefcount(g), sys.getrefcount(g.gi_frame))
        res.evaluations += 1
        res.count("first_extraction_of_the_process_checked")
        if not ok_ctx:
            res.violation(kind="first extraction of the process is wrong", mode=modename, interp=interp)
        elif now != base:
            gc.collect()
            again = (sys.getrefcount(g), sys.getrefcount(g.gi_frame))
            res.violation(kind="retention/repeatability", label="first extraction of the process", mode=modename,
                          problems=["refcounts (target, frame) %r -> %r after the result was dropped (%s)" % (
                              base, now, "a collectable cycle held them" if again == base else "still held after a full collection")],
                          interp=interp)
        g.close()

    first_extraction()

    class TrackedIter(object):
        """iterator that lives only on the interpreter's value stack while a for loop runs"""

        def __init__(self, n, registry):
            self.n = n
            registry.append(self)

        def __iter__(self):
            return self

        def __next__(self):
            if self.n <= 0:
                raise StopIteration
            self.n -= 1
            return self.n

    def install_tracked_R(run, registry):
        orig_R = run.R

        def R():
            return TrackedIter(len(orig_R()), registry)

        return R

    def refsnap(run, registry, frames):
        mgrs = [m for ev, m in run.log if ev == "es"]
        return ([sys.getrefcount(m) for m in mgrs], [sys.getrefcount(i) for i in registry],
                [sys.getrefcount(f) for f in frames])

    def interpreter_settings():
        return (gc.isenabled(), gc.get_threshold(), gc.get_debug(), sys.gettrace(), sys.getprofile(),
                sys.getrecursionlimit(), sys.getswitchinterval(), threading.get_ident())

    def extract_and_monitor(run, do_extract, frames, info, info_mode="running"):
        """perform 1-3 extractions; check equality and that refcounts return to baseline"""
        orng = state["orng"]
        n = orng.choice((1, 1, 2, 3))
        registry = state["registry"]
        here = sys._getframe(0)
        with warnings.catch_warnings():
            warnings.simplefilter("ignore")
            # warm-up: reading frame.f_locals makes CPython cache a snapshot dict on the frame,
            # which holds its own references to the locals until the frame finishes; that is the
            # frame's doing, not a reference held by stackscope, so it is taken before the baseline
            # (the warm-up also carries the check of interpreter-wide settings, with the collector switched on for
            # half of them: what the program had chosen must still be in force afterwards)
            if orng.random() < 0.5:
                gc.enable()
            g0 = interpreter_settings()
            warm = do_extract()
            g1 = interpreter_settings()
            gc.disable()
            del warm
            res.count("interpreter_settings_checks")
            res.count("interpreter_settings_checks_gc_" + ("on" if g0[0] else "off"))
            settings_problem = None
            if g0 != g1:
                settings_problem = "interpreter-wide settings changed by an extraction: %r -> %r" % (g0, g1)
            gc.collect(1)  # in running mode the result holds the monitor's own frames: cycles
            gc.collect()
            before = refsnap(run, registry, frames)
            sts = [do_extract() for _ in range(n)]
        res.count("extractions_in_observed_runs", n)
        any_ctx = any(fr.contexts for fr in sts[0].frames)
        if any_ctx:
            state["pair_nontrivial"] = True
        problems = [settings_problem] if settings_problem else []

        def stable(st):
            # frames of the monitor itself (this function, the lambda) are new on every call
            out = []
            for fr in st.frames:
                if fr.pyframe is here:
                    break
                out.append(fr)
            return out

        for other in sts[1:]:
            res.count("repeat_equal_checks")
            if sts[0].error is None and other.error is None and not (
                    stable(sts[0]) == stable(other) and sts[0].leaf == other.leaf and sts[0].root is other.root):
                problems.append("two extractions of an unmoved target differ")
        if any(s.error is not None for s in sts):
            res.count("extractions_with_error")
        other = None
        del sts, other, here
        if info_mode == "suspended":
            # the results of an extraction from outside hold none of the monitor's frames, so nothing here is
            # cyclic on the monitor's account: the counts must be back at once, without help from the collector
            # (a cycle through stackscope's own frames or tracebacks would pin the target until the next pass)
            after = refsnap(run, registry, frames)
            res.count("refcount_checks_without_collector")
            if before != after:
                gc.collect()
                again = refsnap(run, registry, frames)
                problems.append("refcounts did not return to baseline once the results were dropped: %r -> %r (%s)" % (
                    before, after, "a collectable cycle held them" if again == before else "still held after a full collection"))
        gc.collect(1)
        after = refsnap(run, registry, frames)
        res.count("refcount_checks")
        if registry:
            res.count("valuestack_iters_checked", len(registry))
        if before != after:
            gc.collect()
            after = refsnap(run, registry, frames)
            if before != after:
                problems.append("refcounts did not return to baseline: %r -> %r" % (before, after))
        if problems and not state.get("failed"):
            state["failed"] = True
            res.violation(kind="retention/repeatability", label=state["label"], run_seed=state["rseed"],
                          mode=modename, where=repr(info), problems=problems[:3], source=state["src"], interp=interp)

    def observe(run, x, value, info):
        if state["orng"].random() < 0.45:
            return
        fr = getattr(x, "cr_frame", None) or getattr(x, "gi_frame", None) or getattr(x, "ag_frame", None)
        extract_and_monitor(run, lambda: stackscope.extract(x), [fr] if fr is not None else [], (info["step"], value),
                            info_mode="suspended")

    def probe(run, tag):
        if state["orng"].random() < 0.45:
            return
        f = sys._getframe(1)
        root = None
        while f is not None and f is not me:
            if drive.is_generated(f):
                root = f
            f = f.f_back
        if root is None:
            return
        extract_and_monitor(run, lambda: stackscope.extract_since(root), [root], tag)
        del root, f

    if spec["leg"] == "trees":
        trees_leg(spec, res, interp, modename, budget, stackscope)
        gc.collect()
        bad = [u for u in unclosed if "stackscope" in u[0]]
        if bad:
            res.violation(kind="stackscope async generator finalized un-closed", which=bad[:3], interp=interp)
        ll.set_trickery_enabled(None)
        return res

    nprog = 0
    for label, src, kind in ctxwork.programs(spec, mode):
        if budget.over():
            res.count("budget_cut")
            break
        try:
            code, filename = drive.compile_program(src)
        except SyntaxError:
            continue
        nprog += 1
        res.count("programs")
        state.update(label=label, src=src, failed=False)
        for r in range(spec.get("runs", 3)):
            rseed = spec.get("seed", 0) * 131 + r
            state["rseed"] = rseed
            res.evaluations += 1
            # unobserved twin
            runA = shadow.Run(rseed, mode)
            regA = []
            runA.R = install_tracked_R(runA, regA)
            # observed twin
            runB = shadow.Run(rseed, mode)
            regB = []
            runB.R = install_tracked_R(runB, regB)
            state["registry"] = regB
            state["orng"] = random.Random(rseed * 17 + 3)
            state["pair_nontrivial"] = False
            if mode == "suspended":
                drive.drive_suspended(code, kind, rseed, None, run=runA)
                drive.drive_suspended(code, kind, rseed, observe, run=runB)
            else:
                drive.drive_running(code, kind, rseed, None, run=runA)
                drive.drive_running(code, kind, rseed, probe, run=runB)
            res.count("twin_pairs")
            if runA.trace != runB.trace:
                n = 0
                while n < min(len(runA.trace), len(runB.trace)) and runA.trace[n] == runB.trace[n]:
                    n += 1
                if not state.get("failed"):
                    state["failed"] = True
                    res.violation(kind="twin-run-divergence", label=label, run_seed=rseed, mode=modename,
                                  first_difference_at=n, unobserved=repr(runA.trace[n:n + 4]),
                                  observed=repr(runB.trace[n:n + 4]), source=src, interp=interp)
            if state["pair_nontrivial"]:
                res.nontrivial(interp, modename, label, rseed)
            # retention after the target is finished: everything must die
            refs = [weakref.ref(m) for ev, m in runB.log if ev == "es"] + [weakref.ref(i) for i in regB]
            tgt = getattr(runB, "target", None)
            if tgt is not None:
                refs.append(weakref.ref(tgt))
            del runA, runB, regA, regB, tgt
            state["registry"] = None
            gc.collect()
            alive = [r() for r in refs if r() is not None]
            res.count("weakref_death_checks", len(refs))
            if alive and not state.get("failed"):
                holders = []
                for a in alive[:2]:
                    for h in gc.get_referrers(a):
                        if h is alive or h is refs:
                            continue
                        holders.append("%s" % (type(h).__name__,))
                state["failed"] = True
                res.violation(kind="objects retained after target finished", label=label, run_seed=rseed,
                              mode=modename, alive=[repr(a) for a in alive[:4]], holders=holders[:8], source=src,
                              interp=interp)
            del alive, refs
        if nprog <= 1:
            res.sample({"label": label, "mode": modename, "source": src})
    # async generators created by stackscope must never reach the finalizer un-closed
    gc.collect()
    bad = [u for u in unclosed if "stackscope" in u[0]]
    res.count("asyncgens_seen_from_stackscope", len([f for f in seen_ag if "stackscope" in f]))
    if bad:
        res.violation(kind="stackscope async generator finalized un-closed", which=bad[:3], interp=interp)
    ll.set_trickery_enabled(None)
    if spec.get("tag"):
        res.count("shards_" + spec["tag"])
    return res


def extra_coverage(statuses):
    """count valgrind report blocks attributed to ctypes reads made by stackscope"""
    import glob
    import os
    import re
    from vlib import orch
    out = {}
    logs = glob.glob(os.path.join(orch.WORK, "C06", "valgrind.*.log"))
    if logs:
        blocks = 0
        attributed = 0
        for p in logs:
            with open(p, errors="replace") as f:
                text = f.read()
            for blk in re.split(r"\n==\d+== \n", text):
                if "Invalid read" in blk or "Invalid write" in blk or "uninitialised" in blk:
                    blocks += 1
                    if "_ctypes" in blk:
                        attributed += 1
        out["valgrind_report_blocks"] = blocks
        out["valgrind_blocks_attributed_to_ctypes"] = attributed
    return out


def trees_leg(spec, res, interp, modename, budget, stackscope):
    """Retention and non-perturbation over generator-based managers and exit stacks populated with
    every registration call (bound methods, closures over payload objects, callbacks with arguments):
    after the results are dropped and the target has finished, every manager, callback owner and
    payload object must die; the callbacks' own log must equal that of an unobserved twin."""
    import contextlib
    import gc
    import random
    import types
    import warnings
    import weakref

    @types.coroutine
    def sus(v):
        return (yield v)

    class Payload(object):
        def __init__(self, n):
            self.n = n

    class Res(object):
        def __init__(self, log, n):
            self.log = log
            self.n = n

        def __enter__(self):
            self.log.append(("enter", self.n))
            return self

        def __exit__(self, *e):
            self.log.append(("exit", self.n))

        def close(self, *e):
            self.log.append(("close", self.n))

        async def aclose(self, *e):
            self.log.append(("aclose", self.n))

        async def __aenter__(self):
            self.log.append(("aenter", self.n))
            return self

        async def __aexit__(self, *e):
            self.log.append(("aexit", self.n))

    def build(rng, log, tracked, use_async):
        st = contextlib.AsyncExitStack() if use_async else contextlib.ExitStack()
        ops = []
        for i in range(rng.randint(1, 5)):
            op = rng.choice(["enter_context", "push_method", "push_closure", "callback_args", "gcm", "nested"] +
                            (["push_async_exit_method", "push_async_callback", "enter_async_context"] if use_async else []))
            ops.append(op)
            r = Res(log, len(tracked))
            tracked.append(r)
            pay = Payload(len(tracked))
            tracked.append(pay)
            if op == "enter_context":
                st.enter_context(r)
            elif op == "push_method":
                st.push(r.close)
            elif op == "push_closure":
                def closure(*e, pay=pay, r=r):
                    r.log.append(("closure", pay.n))
                st.push(closure)
            elif op == "callback_args":
                def cb(a, b=None, r=r):
                    r.log.append(("cb", a.n))
                st.callback(cb, pay, b=pay)
            elif op == "gcm":
                @contextlib.contextmanager
                def g(r=r, pay=pay):
                    with r:
                        yield pay
                st.enter_context(g())
            elif op == "nested":
                inner, _ = build(rng, log, tracked, False)
                st.enter_context(inner)
            elif op == "push_async_exit_method":
                st.push_async_exit(r.aclose)
            elif op == "push_async_callback":
                async def acb(a, r=r):
                    r.log.append(("acb", a.n))
                st.push_async_callback(acb, pay)
            elif op == "enter_async_context":
                pass  # entered by the coroutine below
        return st, ops

    async def target(st, use_async, extra):
        if use_async:
            async with st:
                for r in extra:
                    await st.enter_async_context(r)
                await sus("body")
                await sus("body2")
        else:
            with st:
                await sus("body")
                await sus("body2")
        return "done"

    def run_once(seed, observed):
        rng = random.Random(seed)
        log = []
        tracked = []
        use_async = rng.random() < 0.5
        st, ops = build(rng, log, tracked, use_async)
        extra = []
        if use_async:
            for op in ops:
                if op == "enter_async_context":
                    r = Res(log, len(tracked))
                    tracked.append(r)
                    extra.append(r)
        co = target(st, use_async, extra)
        orng = random.Random(seed * 3 + 1)
        nextr = 0
        try:
            while True:
                v = co.send(None)
                log.append(("susp", v))
                if observed:
                    for _ in range(orng.choice((1, 2, 3))):
                        with warnings.catch_warnings():
                            warnings.simplefilter("ignore")
                            s = stackscope.extract(co)
                        nextr += 1
                        str(s)           # formatting exercises the description helpers too
                        del s
        except StopIteration as ex:
            log.append(("end", ex.value))
        refs = [weakref.ref(t) for t in tracked] + [weakref.ref(st)]
        return log, refs, ops, nextr

    for case in range(spec["count"]):
        if budget.over():
            res.count("budget_cut")
            break
        seed = spec.get("seed", 0) * 100003 + case
        res.evaluations += 1
        logA, refsA, ops, _ = run_once(seed, False)
        logB, refsB, ops, nextr = run_once(seed, True)
        res.count("twin_pairs")
        res.count("extractions_in_observed_runs", nextr)
        res.count("tree_cases")
        res.nontrivial(interp, modename, "tree", seed)
        if logA != logB:
            res.violation(kind="twin-run-divergence (exit stacks)", ops=ops, unobserved=repr(logA[-6:]),
                          observed=repr(logB[-6:]), mode=modename, interp=interp)
        gc.collect()
        alive = [r() for r in refsB if r() is not None]
        res.count("weakref_death_checks", len(refsB))
        res.count("tree_objects_checked_for_retention", len(refsB))
        if alive:
            holders = []
            for a in alive[:2]:
                for h in gc.get_referrers(a):
                    if h is alive:
                        continue
                    holders.append(type(h).__name__)
            res.violation(kind="objects retained after the target finished and results were dropped",
                          registrations=ops, alive=[type(a).__name__ for a in alive[:6]], holders=holders[:8],
                          mode=modename, interp=interp)
        del alive, refsA, refsB
        if len(res.samples) < 1:
            res.sample({"leg": "trees", "registrations": ops, "mode": modename})
