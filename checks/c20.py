"""C20 - fallback analysis is a sound ordered over-approximation; failures only warn.

Deciding method: (a) shadow-log oracle over the C01 program space with trickery disabled;
(b) fault injection: an exception raised at the k-th executed line inside the trickery analysis
(line failpoints through sys.monitoring / sys.settrace) - contexts_active_in_frame must return,
warn, and still satisfy the over-approximation; (c) a tri-state model of set_trickery_enabled
checked across threads.
"""
import sys
import warnings

PROPERTY = "C20"
LEVEL = "fault_enumeration"
TECHNIQUE = "runtime monitoring: shadow-log oracle in referents mode + line-failpoint fault injection + mode-switch model"
RULE = ("referents leg: C01 programs observed at every suspension with set_trickery_enabled(False); fault leg: for "
        "sampled suspension points, an InjectedFault raised at the k-th line event inside _contexts_active_by_trickery "
        "and everything it calls (all k for small frames, sampled otherwise); switch leg: random sequences of "
        "set_trickery_enabled(True/False/None) issued and observed from different threads. non-trivial = observation "
        "with >=1 expected context (referents) / an injected fault that escaped the trickery routine (faults) / a "
        "switch step whose expected mode differs from the previous one; distinct by (interpreter, program, run, step[, k])")
ASSUMPTIONS = [
    "ground truth is the managers' own enter/exit event log",
    "line failpoints fire at statement starts only (not between bytecodes of one statement)",
]
MIN_NONTRIVIAL = {"quick": 3000, "thorough": 60000}
REQUIRED_COUNTERS = {"ref_obs_exiting": {"quick": 300, "thorough": 3000},
                     "ref_extras_seen": {"quick": 20, "thorough": 200},
                     "faults_escaped": {"quick": 500, "thorough": 10000},
                     "switch_steps": {"quick": 200, "thorough": 2000},
                     "detection_race_cases": {"quick": 40, "thorough": 40},
                     "earlier_results_rechecked": {"quick": 3000, "thorough": 30000}}
SHARD_TIMEOUT = {"quick": 400, "thorough": 5400}
INTERPS = ["3.12", "3.11", "3.10", "3.9"]


def plan(tier, seed):
    shards = []
    for interp in INTERPS:
        if tier == "quick":
            shards.append({"interp": interp, "leg": "random", "what": "referents", "seed": seed, "start": 0, "count": 100,
                           "runs": 3, "budget_s": 35})
            shards.append({"interp": interp, "leg": "skeleton", "what": "referents", "seed": seed, "start": 0, "count": 300,
                           "runs": 3, "asyncify": True, "corpus_seed": seed, "budget_s": 35})
            shards.append({"interp": interp, "leg": "templates", "what": "faults", "seed": seed, "start": 0, "count": 250,
                           "runs": 1, "budget_s": 40, "per_obs": 8, "obs_stride": 2})
            shards.append({"interp": interp, "leg": "switch", "what": "switch", "seed": seed, "steps": 150})
        else:
            for s in range(3):
                shards.append({"interp": interp, "leg": "random", "what": "referents", "seed": seed, "start": s * 2000,
                               "count": 2000, "runs": 5, "budget_s": 1200})
            for s in range(2):
                shards.append({"interp": interp, "leg": "skeleton", "what": "referents", "seed": seed, "start": s * 1500,
                               "count": 1500, "runs": 5, "asyncify": True, "corpus_seed": seed, "budget_s": 1200})
            shards.append({"interp": interp, "leg": "templates", "what": "referents", "seed": seed, "start": 0,
                           "count": 12000, "runs": 3, "budget_s": 1200})
            for s in range(3):
                # every line of the analysis on 3.12 (sys.monitoring); a sample per observation where the
                # failpoint has to be raised from a sys.settrace callback (see vlib/failpoints.py)
                shards.append({"interp": interp, "leg": "templates", "what": "faults", "seed": seed, "start": s * 400,
                               "count": 400, "runs": 1, "budget_s": 1200, "per_obs": 0 if interp == "3.12" else 60,
                               "obs_stride": 2})
            shards.append({"interp": interp, "leg": "random", "what": "faults", "seed": seed, "start": 0,
                           "count": 300, "runs": 1, "budget_s": 1200, "per_obs": 25, "obs_stride": 2})
            shards.append({"interp": interp, "leg": "switch", "what": "switch", "seed": seed, "steps": 1500})
    return shards


def worker(spec):
    from vlib.worker import Result
    res = Result()
    if spec["what"] == "switch":
        return switch_leg(spec, res)
    from vlib import ctxwork, drive, ctxmon, failpoints
    import stackscope
    from stackscope import lowlevel as ll
    from stackscope import _lowlevel as LL

    interp = "%d.%d" % sys.version_info[:2]
    budget = ctxwork.Budget(spec.get("budget_s", 60))
    state = {}
    faults = spec["what"] == "faults"
    if not faults:
        ll.set_trickery_enabled(False)

    def judge(ctxs, run, frame, what):
        exp = run.truth(id(frame))
        prog = run.in_progress(id(frame))
        p = ctxmon.compare_overapprox(ctxs, exp, prog)
        extras = len(ctxs) - len(exp)
        return p, exp, extras

    def observe_referents(run, x, value, info):
        res.evaluations += 1
        with warnings.catch_warnings(record=True) as w:
            warnings.simplefilter("always")
            st = stackscope.extract(x)
        problems = []
        if st.error is not None:
            problems.append("Stack.error %r" % (st.error,))
        if ctxmon.insp_warnings(w):
            problems.append("InspectionWarning in referents mode: %s" % ctxmon.insp_warnings(w)[0])
        nontrivial = False
        for i, fr in enumerate(st.frames):
            p, exp, extras = judge(fr.contexts, run, fr.pyframe, "extract")
            if exp:
                nontrivial = True
                if exp[-1][2]:
                    res.count("ref_obs_exiting")
            if extras > 0:
                res.count("ref_extras_seen")
            if any(c.start_line is not None for c in fr.contexts):
                problems.append("start_line filled although trickery is disabled")
            if p:
                problems.append("frame %d (%s): %s; got %r expected %r" % (
                    i, fr.funcname, p, [ctxmon.brief_ctx(c) for c in fr.contexts], ctxmon.brief_truth(exp)))
            nxt = st.frames[i + 1].pyframe if i + 1 < len(st.frames) else None
            direct = ll.contexts_active_in_frame(fr.pyframe, fr.origin, nxt)
            p2, _, _ = judge(direct, run, fr.pyframe, "lowlevel")
            if p2 and not p:
                problems.append("frame %d lowlevel entry: %s" % (i, p2))
        res.count("ref_obs")
        # results are values: what an earlier extraction returned (and the caller still holds) must not change
        # because a later one ran
        kept = state.setdefault("kept_ref", [])
        for old_st, old_sig, old_where in kept:
            res.count("earlier_results_rechecked")
            if ctxmon.value_signature(old_st) != old_sig and not problems:
                problems.append("the result of an earlier extraction (%s) changed when this one ran" % (old_where,))
        if nontrivial:
            kept.append((st, ctxmon.value_signature(st), "%r run %r step %r" % (state["label"], state["rseed"], info["step"])))
            del kept[:-4]
        if nontrivial:
            res.nontrivial(interp, "ref", state["label"], state["rseed"], info["step"])
        if problems and not state.get("failed"):
            state["failed"] = True
            res.violation(kind="referents-overapprox", label=state["label"], run_seed=state["rseed"],
                          step=info["step"], at=repr(value), problems=problems[:4], source=state["src"], interp=interp)

    # ---- fault leg ------------------------------------------------------------------------
    if faults:
        targets = [LL._contexts_active_by_trickery, LL.analyze_with_blocks, LL.currently_exiting_context,
                   LL.describe_assignment_target]
        if sys.version_info >= (3, 11):
            targets += [LL._parse_exception_table, LL._parse_varint]
            from stackscope import _lowlevel_cpython_311 as impl
        else:
            from stackscope import _lowlevel_cpython_310 as impl
        targets.append(impl.inspect_frame)
        # faults are injected while the *trickery attempt* of contexts_active_in_frame is running:
        # from the start of the call until the fallback routine is entered (or the call returns)
        gate = {"active": False, "escaped": None, "fallback_entered": False}
        orig_referents = LL._contexts_active_by_referents

        def gated_referents(*a, **k):
            gate["active"] = False
            gate["fallback_entered"] = True
            return orig_referents(*a, **k)

        # make sure trickery was auto-detected *before* patching / injecting
        LL._check_trickery_available()
        LL.inspect_frame(sys._getframe(0))  # resolve the lazy implementation import
        LL._contexts_active_by_referents = gated_referents
        fp = failpoints.LineFailpoints(failpoints.codes_of(*targets), gate=lambda: gate["active"])
        import random as _random
        frng = _random.Random(spec.get("seed", 0) * 977 + 5)

    import os as _os
    TRACE_TO = _os.environ.get("C20_TRACE")

    def observe_faults(run, x, value, info):
        if info["step"] % spec.get("obs_stride", 1):
            return
        st0 = stackscope.extract(x)
        for i, fr0 in enumerate(st0.frames):
            frame = fr0.pyframe
            if not drive.is_generated(frame):
                continue
            exp = run.truth(id(frame))
            if not exp and frng.random() < 0.7:
                continue
            nxt = st0.frames[i + 1].pyframe if i + 1 < len(st0.frames) else None
            origin = fr0.origin

            def call():
                gate["fallback_entered"] = False
                gate["active"] = True
                try:
                    with warnings.catch_warnings(record=True) as w:
                        warnings.simplefilter("always")
                        r = ll.contexts_active_in_frame(frame, origin, nxt)
                finally:
                    gate["active"] = False
                return r, ctxmon.insp_warnings(w)

            _, raised, n = fp.call(call)
            if raised is not None:
                res.violation(kind="fault-free call raised", error=repr(raised), source=state["src"], interp=interp)
                return
            res.count("fault_sites_line_events", n)
            per = spec.get("per_obs", 6)
            ks = list(range(1, n + 1))
            if per and len(ks) > per:
                ks = sorted(frng.sample(ks, per))
            for k in ks:
                if not failpoints.injection_budget_left():
                    if not state.get("cap_noted"):
                        state["cap_noted"] = True
                        res.count("settrace_injection_budget_reached")
                    return
                fault = failpoints.InjectedFault("k=%d" % k)
                if TRACE_TO:
                    with open(TRACE_TO, "a") as _tf:
                        _tf.write("%r step=%r frame=%d k=%d/%d\n" % (state["label"], info["step"], i, k, n))
                out, raised, _ = fp.call(call, k, fault)
                # the trickery attempt failed iff the fallback routine was entered
                gate["escaped"] = fault if (fp.fired and gate["fallback_entered"]) else None
                res.evaluations += 1
                res.count("faults_injected")
                problems = []
                if raised is not None:
                    problems.append("contexts_active_in_frame raised %r" % (raised,))
                else:
                    ctxs, iw = out
                    if gate["escaped"] is not None:
                        res.count("faults_escaped")
                        res.nontrivial(interp, "fault", state["label"], info["step"], i, k)
                        if not iw:
                            problems.append("trickery failed (fault escaped) but no InspectionWarning was emitted")
                        p, exp2, extras = judge(ctxs, run, frame, "fault")
                        if p:
                            problems.append("fallback result after fault: %s; got %r expected %r" % (
                                p, [ctxmon.brief_ctx(c) for c in ctxs], ctxmon.brief_truth(exp2)))
                    else:
                        res.count("faults_swallowed_inside" if fp.fired else "faults_not_reached")
                        p = ctxmon.compare_exact(ctxs, exp)
                        if p:
                            problems.append("fault did not escape yet result is not exact: %s" % p)
                if problems and not state.get("failed"):
                    state["failed"] = True
                    res.violation(kind="fault-in-trickery", label=state["label"], step=info["step"], k=k,
                                  fired_at=fp.fired_at, problems=problems[:3], source=state["src"], interp=interp)

    observe = observe_faults if faults else observe_referents
    nprog = 0
    for label, src, kind in ctxwork.programs(spec, "suspended"):
        if budget.over():
            res.count("budget_cut")
            break
        try:
            code, filename = drive.compile_program(src)
        except SyntaxError:
            continue
        nprog += 1
        res.count("programs")
        state.update(label=label, src=src, failed=False)
        for r in range(spec.get("runs", 3)):
            state["rseed"] = r
            from vlib import shadow as _shadow
            run_ = _shadow.Run(spec.get("seed", 0) * 131 + r, "suspended")
            run_.alias_exit = False   # documented limitation of the referents analysis (by-name recognition)
            drive.drive_suspended(code, kind, spec.get("seed", 0) * 131 + r, observe, run=run_,
                                  max_obs=(30 if faults else 80))
        if nprog <= 1:
            res.sample({"what": spec["what"], "label": label, "source": src})
    return res


def switch_leg(spec, res):
    """Random sequences of set_trickery_enabled(True/False/None) issued from several threads;
    the mode is observed (trickery fills start_line, referents does not) by extractions made on
    *other* threads.  Steps are sequenced through queues (each completes before the next is
    issued), so the tri-state model gives one expected mode per step."""
    import queue
    import random
    import threading
    import types
    import stackscope
    from stackscope import lowlevel as ll

    interp = "%d.%d" % sys.version_info[:2]
    rng = random.Random(spec.get("seed", 0) * 31 + 7)

    class CM(object):
        def __enter__(self):
            return self

        def __exit__(self, *a):
            return False

    def target():
        with CM() as cm:  # noqa
            yield 1

    g = target()
    next(g)

    def observe_mode():
        ctxs = ll.contexts_active_in_frame(g.gi_frame, g, None)
        st = stackscope.extract(g)
        a = [c.start_line is not None for c in ctxs]
        b = [c.start_line is not None for c in st.frames[0].contexts]
        if len(a) != 1 or len(b) != 1 or a != b:
            return "odd:%r/%r" % (a, b)
        return "trickery" if a[0] else "referents"

    nthreads = 4
    inq = [queue.Queue() for _ in range(nthreads)]
    outq = queue.Queue()

    def runner(i):
        while True:
            job = inq[i].get()
            if job is None:
                return
            try:
                if job[0] == "set":
                    ll.set_trickery_enabled(job[1])
                    outq.put(("ok", None))
                else:
                    outq.put(("ok", observe_mode()))
            except BaseException as ex:
                outq.put(("exc", repr(ex)))

    threads = [threading.Thread(target=runner, args=(i,), daemon=True) for i in range(nthreads)]
    for t in threads:
        t.start()
    model = None  # auto-detect -> trickery on CPython
    prev_expected = None
    history = []
    for step in range(spec["steps"]):
        setter = rng.randrange(nthreads)
        value = rng.choice((True, False, None))
        inq[setter].put(("set", value))
        r = outq.get(timeout=60)
        model = value
        observer = rng.choice([i for i in range(nthreads) if i != setter])
        inq[observer].put(("obs",))
        kind, got = outq.get(timeout=60)
        expected = "referents" if model is False else "trickery"
        history.append((setter, value, observer, got))
        res.evaluations += 1
        res.count("switch_steps")
        if expected != prev_expected:
            res.nontrivial(interp, "switch", step, value)
        prev_expected = expected
        if r[0] != "ok" or kind != "ok" or got != expected:
            res.violation(kind="mode-switch", step=step, expected=expected, got=got, set_result=r,
                          history=history[-6:], interp=interp)
            break
    # ---- detection race: a setter call that overlaps the auto-detection self-test -----------------
    # Thread A triggers auto-detection (state None) and is paused at its k-th executed line inside
    # _check_trickery_available (line-level yield injection through sys.settrace in that thread only);
    # thread B then calls set_trickery_enabled(v).  Whatever the interleaving, once B's call has
    # returned every later extraction on every thread must use v.
    from stackscope import _lowlevel as LLm
    det_codes = set()

    def _codes(co):
        det_codes.add(co)
        for c in co.co_consts:
            if isinstance(c, types.CodeType):
                _codes(c)

    _codes(LLm._check_trickery_available.__code__)
    race_cases = 0
    for k in range(1, 60):
        for v in (False, True):
            ll.set_trickery_enabled(None)
            LLm._can_use_trickery = None
            paused = threading.Event()
            resume = threading.Event()
            state = {"n": 0, "hit": False}

            def local_tracer(frame, event, arg):
                if event == "line" and not state["hit"]:
                    state["n"] += 1
                    if state["n"] == k:
                        state["hit"] = True
                        paused.set()
                        resume.wait(30)
                return local_tracer

            def global_tracer(frame, event, arg):
                if frame.f_code in det_codes:
                    return local_tracer
                return None

            a_result = {}

            def thread_a():
                sys.settrace(global_tracer)
                try:
                    a_result["mode"] = observe_mode()
                except BaseException as ex:  # noqa
                    a_result["exc"] = repr(ex)
                finally:
                    sys.settrace(None)

            b_done = threading.Event()

            def thread_b():
                ll.set_trickery_enabled(v)
                b_done.set()

            ta = threading.Thread(target=thread_a, daemon=True)
            ta.start()
            if not paused.wait(5):
                # fewer than k line events in the detection: every pause point has been explored
                resume.set()
                ta.join(30)
                break
            tb = threading.Thread(target=thread_b, daemon=True)
            tb.start()
            b_done.wait(0.05)      # B either returns at once or blocks until A leaves the self-test
            resume.set()
            ta.join(30)
            tb.join(30)
            race_cases += 1
            res.evaluations += 1
            res.count("detection_race_cases")
            res.nontrivial(interp, "detection-race", k, v)
            got = {}

            def thread_c():
                got["mode"] = observe_mode()

            tc = threading.Thread(target=thread_c, daemon=True)
            tc.start()
            tc.join(30)
            expected = "trickery" if v else "referents"
            mine = observe_mode()
            if "exc" in a_result or got.get("mode") != expected or mine != expected:
                res.violation(kind="setter overlapping auto-detection lost", paused_at_line_event=k, value=v,
                              expected=expected, other_thread_sees=got.get("mode"), this_thread_sees=mine,
                              detection_thread=a_result, interp=interp)
        else:
            continue
        break
    ll.set_trickery_enabled(None)

    # concurrent stress: no ordering claim, only "no exception, a definite mode each time"
    stop = threading.Event()
    errors = []

    def hammer(i):
        r = random.Random(i)
        while not stop.is_set():
            try:
                if r.random() < 0.5:
                    ll.set_trickery_enabled(r.choice((True, False, None)))
                else:
                    m = observe_mode()
                    # the mode may legitimately change between the two reads made by
                    # observe_mode(); only a malformed result is an error here
                    if m not in ("trickery", "referents") and not m.startswith("odd:[True]/[False]") \
                            and not m.startswith("odd:[False]/[True]"):
                        errors.append(m)
            except BaseException as ex:
                errors.append(repr(ex))

    hs = [threading.Thread(target=hammer, args=(i,), daemon=True) for i in range(4)]
    for t in hs:
        t.start()
    import time
    time.sleep(1.0 if spec["steps"] < 500 else 5.0)
    stop.set()
    for t in hs:
        t.join(30)
    for i in range(nthreads):
        inq[i].put(None)
    if errors:
        res.violation(kind="mode-switch-concurrent", errors=errors[:5], interp=interp)
    ll.set_trickery_enabled(None)
    res.sample({"what": "switch", "history_tail": [list(map(repr, h)) for h in history[-5:]]})
    return res
