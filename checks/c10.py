"""C10 - frame hooks: unwrap to a fixpoint; elaborate_frame edits only the inward rest.

Deciding method: executable reference model.  Synthetic stack-item types and parked generator
frames are registered once through the public API (unwrap_stackitem.register,
elaborate_frame.register) and read their behaviour from a per-case table; extract(item) is
compared with a recursive reference interpretation of the documented rules.  Where the
documentation leaves the depth label of next_inner after an insert open, the model is run under
both readings and either result is accepted.
"""
import sys

PROPERTY = "C10"
LEVEL = "exploration"
TECHNIQUE = "runtime monitoring against an executable reference model of the documented unwrap/elaborate rules"
RULE = ("item trees over synthetic wrapper items whose unwrap result is a tuple / list / single item / yields_frames "
        "iterator / empty / None-containing sequence / iterator raising mid-way / irreducible / self- or 2-cycle, "
        "with parked generator frames as leaves of the tree; every frame's elaborate_frame result drawn from "
        "{None, PRUNE, (), [], replace by one item, replace by several, insert-before, insert on the innermost "
        "frame}, including hooks on frames that were themselves inserted or substituted. small trees are enumerated "
        "exhaustively, larger ones sampled. non-trivial = case with >=1 non-None elaborate result or a cycle; "
        "distinct by the (tree, table) text")
ASSUMPTIONS = [
    "after an insert, the depth label of next_inner is accepted under both readings (min(own, inserter) or own "
    "depth with the inserted sub-stack's prunes stopping before it)",
    "irreducible items in the middle of the sequence are counted, not judged (undocumented)",
]
MIN_NONTRIVIAL = {"quick": 20000, "thorough": 400000}
REQUIRED_COUNTERS = {"cases_with_insert": {"quick": 3000, "thorough": 50000},
                     "cases_with_prune_by_inserted": {"quick": 300, "thorough": 5000},
                     "cases_insert_innermost": {"quick": 300, "thorough": 5000},
                     "cycle_cases": {"quick": 50, "thorough": 500},
                     "deep_progressing_chains": {"quick": 100, "thorough": 2000},
                     "ambiguous_both_readings": {"quick": 10, "thorough": 100},
                     "none_yielded_by_frame_iterators": {"quick": 300, "thorough": 3000},
                     "multiplying_cycle_cases": {"quick": 50, "thorough": 500},
                     "frame_iterators_that_are_not_generators": {"quick": 1000, "thorough": 10000},
                     "elaborate_results_that_are_deques": {"quick": 200, "thorough": 2000},
                     "unwrap_results_that_are_lists_the_hook_keeps": {"quick": 200, "thorough": 2000}}
SHARD_TIMEOUT = {"quick": 400, "thorough": 5400}
EXHAUSTIVE = {"quick": False, "thorough": False}


def plan(tier, seed):
    shards = []
    n = 16
    for s in range(n):
        shards.append({"interp": "3.12", "seed": seed * 1000 + s, "leg": "random",
                       "cases": 40000 if tier == "quick" else 400000, "budget_s": 45 if tier == "quick" else 1500})
    for s in range(4 if tier == "quick" else 16):
        shards.append({"interp": "3.12", "seed": seed, "leg": "exhaustive", "part": s,
                       "parts": 4 if tier == "quick" else 16, "max_nodes": 5 if tier == "quick" else 6,
                       "budget_s": 45 if tier == "quick" else 2400})
    for interp in ("3.11", "3.10", "3.9"):
        shards.append({"interp": interp, "seed": seed * 1000 + 77, "leg": "random",
                       "cases": 4000 if tier == "quick" else 60000, "budget_s": 45 if tier == "quick" else 1500})
    return shards


# ---------------------------------------------------------------------------------------------
# reference model

class Elem(object):
    __slots__ = ("kind", "obj", "depth", "tag", "groups", "guards")

    def __init__(self, kind, obj, depth, tag=None, groups=()):
        self.kind = kind
        self.obj = obj
        self.depth = depth
        self.tag = tag
        self.groups = tuple(groups)   # inserted sub-stacks this element descends from (reading B)
        self.guards = set()           # groups whose prunes must stop before this element (reading B)


class Model(object):
    """Reference interpretation over a flat DFS list of elements labelled with their unwrap
    depth.  kind 'F' = frame, 'L' = leaf (irreducible)."""

    def __init__(self, is_frame, unwrap_spec, actions, reading):
        self.is_frame = is_frame
        self.unwrap_spec = unwrap_spec
        self.actions = actions
        self.reading = reading
        self.errors = 0
        self.midleaf = False
        self.ngroups = 0

    def expand(self, item, depth, out, groups=()):
        if self.is_frame(item):
            out.append(Elem("F", item, depth, None, groups))
            return
        spec = self.unwrap_spec(item)
        if spec is None:
            out.append(Elem("L", item, depth, None, groups))
            return
        kind, kids = spec
        if kind == "cycle":
            # never reaches anything irreducible: 100 steps, then an error; it stays as a leaf
            self.errors += 1
            out.append(Elem("L", None, depth, "cycle", groups))
            return
        if kind == "raises":
            self.errors += 1
            out.append(Elem("L", item, depth, None, groups))
            return
        if kind == "iter_raises":
            self.errors += 1
        for k in kids:
            if k is not None:
                self.expand(k, depth + 1, out, groups)

    def run(self, root):
        L = []
        self.expand(root, 0, L)
        frames = []
        i = 0
        while i < len(L):
            e = L[i]
            if e.kind != "F":
                rest = L[i:]
                if len(rest) > 1:
                    self.midleaf = True
                    return frames, [x.obj for x in rest], any(x.tag == "cycle" for x in rest)
                return frames, e.obj, e.tag == "cycle"
            frames.append(e.obj)
            i += 1
            act = self.actions.get(id(e.obj))
            if act is None:
                continue
            akind, items = act
            rest = L[i:]
            d = e.depth
            if akind in ("prune", "replace"):
                if akind == "prune":
                    items = []
                j = 0
                while j < len(rest) and rest[j].depth >= d:
                    if rest[j].guards & set(e.groups):
                        break
                    j += 1
                new = []
                for it in items:
                    self.expand(it, d, new, e.groups)
                L = L[:i] + new + rest[j:]
            else:  # insert: the other items go before next_inner, which stays in place
                self.ngroups += 1
                g = self.ngroups
                new = []
                for it in items:
                    self.expand(it, d, new, e.groups + (g,))
                if rest:
                    if self.reading == "A":
                        rest[0].depth = min(d, rest[0].depth)
                    else:
                        rest[0].guards.add(g)
                L = L[:i] + new + rest
        return frames, None, False


def run_model(root, is_frame, unwrap_spec, actions):
    out = {}
    for reading in ("A", "B"):
        m = Model(is_frame, unwrap_spec, actions, reading)
        frames, leaf, cyc = m.run(root)
        out[reading] = (frames, leaf, cyc, m.errors, m.midleaf)
    return out


# ---------------------------------------------------------------------------------------------

def worker(spec):
    import itertools
    import random
    import warnings
    from vlib.worker import Result
    from vlib import ctxwork
    import stackscope
    from stackscope import elaborate_frame, unwrap_stackitem, extract, PRUNE, yields_frames

    res = Result()
    interp = "%d.%d" % sys.version_info[:2]
    budget = ctxwork.Budget(spec.get("budget_s", 60))
    NF = 12
    NDEEP = 150

    def mk(name):
        ns = {}
        exec("def %s():\n    yield\n" % name, ns)
        g = ns[name]()
        next(g)
        return g

    GENS = [mk("F%d" % i) for i in range(NF)]
    FR = [g.gi_frame for g in GENS]
    NAME = {id(f): "F%d" % i for i, f in enumerate(FR)}
    # extra parked frames (no hooks registered) for very deep stacks
    DEEPGENS = [mk("D%d" % i) for i in range(NDEEP)]
    DEEPFR = [g.gi_frame for g in DEEPGENS]
    for i, f in enumerate(DEEPFR):
        NAME[id(f)] = "D%d" % i

    class W(object):
        """wrapper item; style decides what unwrap_stackitem returns"""

        def __init__(self, style, kids):
            self.style = style
            self.kids = kids
            self.partner = None
            # stack items are arbitrary objects: some are falsy (an empty container-like item)
            W.count += 1
            self.falsy = W.count % 4 == 0

        count = 0

        def __bool__(self):
            return not self.falsy

        def __repr__(self):
            return "W%s(%s)" % (self.style, ",".join(rep(k) for k in self.kids))

    class Leaf(object):
        def __init__(self, n):
            self.n = n

        def __len__(self):
            return 0   # a falsy irreducible leaf

        def __repr__(self):
            return "L%d" % self.n

    class IterBoom(Exception):
        pass

    class UnwrapBoom(Exception):
        pass

    def rep(x):
        return NAME.get(id(x)) or repr(x)

    counter = {"unwraps": 0}

    @yields_frames
    def it_ok(kids):
        for k in kids:
            yield k

    # a @yields_frames hook may return any iterator, not only a generator
    import itertools as _it

    class KidIter(object):
        def __init__(self, kids):
            self.kids = list(kids)

        def __iter__(self):
            return self

        def __next__(self):
            if not self.kids:
                raise StopIteration
            return self.kids.pop(0)

    @yields_frames
    def it_listiter(kids):
        return iter(list(kids))

    @yields_frames
    def it_map(kids):
        return map(lambda k: k, kids)

    @yields_frames
    def it_chain(kids):
        return _it.chain(kids[:1], kids[1:])

    @yields_frames
    def it_class(kids):
        return KidIter(kids)

    IT_FLAVOURS = [it_ok, it_listiter, it_map, it_chain, it_class]

    @yields_frames
    def it_raises(kids):
        for k in kids:
            yield k
        raise IterBoom()

    @unwrap_stackitem.register(W)
    def _unwrap_w(w):
        counter["unwraps"] += 1
        if counter["unwraps"] > 10000:
            raise SystemExit("unwrap bound exceeded")  # logical (not wall-clock) hang detector
        s = w.style
        if s == "tuple":
            return tuple(w.kids)
        if s == "list":
            if counter["unwraps"] % 2:
                # the hook hands out a list it goes on holding (`return job.stack`): it is the hook's, not the library's
                HELD.append((w, list(w.kids)))
                res.count("unwrap_results_that_are_lists_the_hook_keeps")
                return w.kids
            return list(w.kids)
        if s == "single":
            return w.kids[0] if w.kids else ()
        if s == "iter":
            w.flavour = getattr(w, "flavour", None) or IT_FLAVOURS[W.count % len(IT_FLAVOURS)]
            if w.flavour is not it_ok:
                res.count("frame_iterators_that_are_not_generators")
            return w.flavour(w.kids)
        if s == "iter_raises":
            return it_raises(w.kids)
        if s == "none":
            return None
        if s == "raises":
            raise UnwrapBoom()
        if s == "self":
            return w
        if s == "cycle2":
            return w.partner
        if s == "selfdup":
            # a cycle that also multiplies: the item unwraps to two copies of itself
            return (w, w)
        raise AssertionError(s)

    ACT = {}
    HELD = []
    SINGLE = {"v": False}
    DEQUE = {"v": False}
    EMPTY = {"v": ()}

    def reg(i):
        @elaborate_frame.register(GENS[i].gi_code)
        def _hook(frame, nxt):
            a = ACT.get(id(FR[i]))
            if not a:
                return None
            kind, items = a
            if kind == "prune":
                return EMPTY["v"]
            if kind == "replace":
                return items[0] if (len(items) == 1 and SINGLE["v"]) else tuple(items)
            if kind == "insert":
                if DEQUE["v"]:
                    # "a sequence of objects": any Sequence will do, e.g. a deque (which cannot be sliced)
                    import collections as _c
                    res.count("elaborate_results_that_are_deques")
                    return _c.deque(list(items) + [nxt])
                return tuple(items) + (nxt,) if SINGLE["v"] else list(items) + [nxt]

    for i in range(NF):
        reg(i)

    def is_frame(x):
        return id(x) in NAME

    def unwrap_spec(item):
        if isinstance(item, W):
            s = item.style
            if s in ("self", "cycle2", "selfdup"):
                return ("cycle", [])
            if s == "none":
                return None
            if s == "raises":
                return ("raises", [])
            if s == "single":
                return ("seq", item.kids[:1])
            if s == "iter_raises":
                return ("iter_raises", item.kids)
            return ("seq", item.kids)
        return None

    def judge(root, desc):
        res.evaluations += 1
        counter["unwraps"] = 0
        exp = run_model(root, is_frame, unwrap_spec, ACT)
        try:
            with warnings.catch_warnings():
                warnings.simplefilter("ignore")
                s = extract(root, with_contexts=(res.evaluations % 7 == 0))
        except SystemExit:
            res.violation(kind="unwrapping did not terminate (10000 unwraps)", case=desc, interp=interp)
            return
        except Exception as ex:
            res.violation(kind="extract raised", error=repr(ex), case=desc, interp=interp)
            return
        for w, snapshot in HELD:
            if len(w.kids) != len(snapshot) or any(a is not b for a, b in zip(w.kids, snapshot)):
                res.violation(kind="a list returned by an unwrap hook was modified by the extraction", case=desc,
                              before=[rep(x) for x in snapshot], after=[rep(x) for x in w.kids], interp=interp)
                w.kids[:] = snapshot
        del HELD[:]
        got_frames = [f.pyframe for f in s.frames]
        ok_any = False
        for reading in ("A", "B"):
            frames, leaf, cyc, nerr, midleaf = exp[reading]
            same_frames = len(frames) == len(got_frames) and all(a is b for a, b in zip(frames, got_frames))
            if midleaf:
                # undocumented: frames after a mid-sequence irreducible item; judge the prefix only
                same_leaf = True
            elif cyc:
                # a cycle item sinks 100 levels each time it is re-unwrapped, so whether a later
                # prune reaches it is an artefact of an already erroneous input: require the error,
                # do not judge whether the item is still reported as leaf
                same_leaf = s.error is not None
            elif isinstance(leaf, list):
                same_leaf = isinstance(s.leaf, list) and len(s.leaf) == len(leaf)
            else:
                same_leaf = s.leaf is leaf
            err_ok = (s.error is not None) if (nerr and not ACT) else (True if nerr else s.error is None)
            # (a cycle item at the tail is legitimately re-unwrapped - 100 steps each time - whenever
            # an elaborate hook re-queues the rest; the 10000-unwrap bound is the hang detector)
            if same_frames and same_leaf and err_ok:
                ok_any = True
        A, B = exp["A"], exp["B"]
        if [id(f) for f in A[0]] != [id(f) for f in B[0]] or A[1] is not B[1] and A[1] != B[1]:
            res.count("ambiguous_both_readings")
        if exp["A"][4]:
            res.count("midsequence_leaf_counted_not_judged")
        if exp["A"][2]:
            res.count("cycle_cases")
        nontrivial = bool(ACT) or exp["A"][2]
        if nontrivial:
            res.nontrivial(desc)
        kinds = set(a[0] for a in ACT.values())
        if "insert" in kinds:
            res.count("cases_with_insert")
        if "prune" in kinds:
            res.count("cases_with_prune")
        if "replace" in kinds:
            res.count("cases_with_replace")
        if not ok_any:
            res.violation(kind="differs from the reference interpretation", case=desc,
                          got=[rep(x) for x in got_frames], got_leaf=repr(s.leaf), got_error=repr(s.error),
                          expected_A=([rep(x) for x in A[0]], repr(A[1])),
                          expected_B=([rep(x) for x in B[0]], repr(B[1])), interp=interp)
        if len(res.samples) < 3 and len(ACT) >= 2:
            res.sample({"case": desc, "frames": [rep(x) for x in got_frames], "leaf": repr(s.leaf)})

    def describe(root):
        return "root=%r actions=%r single=%r empty=%r" % (
            root, sorted((NAME[k], v[0], [rep(x) for x in v[1]]) for k, v in ACT.items()), SINGLE["v"], EMPTY["v"])

    # ---- random leg ---------------------------------------------------------------------------
    if spec["leg"] == "random":
        rng = random.Random(spec["seed"])

        def rand_item(depth, pool, styles):
            if depth >= 3 or rng.random() < 0.45:
                return pool.pop() if pool else None
            kids = [rand_item(depth + 1, pool, styles) for _ in range(rng.randint(0, 3))]
            style = rng.choice(styles)
            if style == "single":
                kids = [k for k in kids if k is not None]
            elif style in ("iter", "iter_raises") and any(k is None for k in kids):
                # a yields_frames iterator may yield None placeholders just like a sequence may hold them
                res.count("none_yielded_by_frame_iterators")
            return W(style, kids)

        styles = ["tuple", "list", "iter", "single", "tuple", "list", "iter", "iter_raises"]
        for case in range(spec["cases"]):
            if budget.over():
                res.count("budget_cut")
                break
            if case % 500 == 7:
                # a stack that nests >= 100 unwrap layers while making progress at every layer: an item
                # unwraps to (frame, next item) again and again; the 100-step rule must not fire
                depth = rng.randint(100, NDEEP)
                item = W("tuple", [DEEPFR[depth - 1]]) if rng.random() < 0.5 else DEEPFR[depth - 1]
                for i in range(depth - 2, -1, -1):
                    item = W(rng.choice(("tuple", "list", "iter")), [DEEPFR[i], item])
                ACT.clear()
                if rng.random() < 0.5:
                    ACT[id(FR[0])] = ("prune", [])
                res.count("deep_progressing_chains")
                judge(item, "deep chain of %d progressing layers" % depth)
                continue
            pool = FR[:]
            rng.shuffle(pool)
            root = rand_item(0, pool, styles) or W("tuple", [])
            if not isinstance(root, W):
                root = W("tuple", [root])
            r = rng.random()
            if r < 0.15:
                root.kids.append(Leaf(1))            # irreducible tail
            elif r < 0.20:
                root.kids.append(W("none", []))
            elif r < 0.22:
                root.kids.append(W("selfdup", []))   # cycle at the tail that doubles at every step
                res.count("multiplying_cycle_cases")
            elif r < 0.24:
                root.kids.append(W("self", []))      # cycle at the tail
            elif r < 0.28:
                a, b = W("cycle2", []), W("cycle2", [])
                a.partner, b.partner = b, a
                root.kids.append(a)
            elif r < 0.31:
                root.kids.append(W("raises", []))
            elif r < 0.34:
                root.kids.insert(0, Leaf(2))         # mid-sequence irreducible (counted, not judged)
            ACT.clear()
            used = [f for f in FR if f not in pool]
            inserted_frames = []
            for f in used:
                if rng.random() < 0.5:
                    continue
                kind = rng.choice(["prune", "replace", "insert", "insert"])
                items = [x for x in (rand_item(1, pool, ["tuple", "list", "iter", "single"])
                                     for _ in range(rng.randint(1, 2))) if x is not None]
                if kind != "prune" and not items:
                    continue
                ACT[id(f)] = (kind, items)
                if kind == "insert":
                    inserted_frames.extend(items)
            # hooks on frames that were themselves inserted / substituted
            newly = [f for f in FR if f not in pool and f not in used]
            for f in newly:
                if rng.random() < 0.5:
                    kind = rng.choice(["prune", "prune", "replace", "insert"])
                    items = [x for x in (rand_item(2, pool, ["tuple", "single"]) for _ in range(1)) if x is not None]
                    if kind != "prune" and not items:
                        continue
                    ACT[id(f)] = (kind, items)
                    if kind == "prune":
                        res.count("cases_with_prune_by_inserted")
            SINGLE["v"] = rng.random() < 0.5
            DEQUE["v"] = rng.random() < 0.15
            EMPTY["v"] = rng.choice(((), [], PRUNE))
            # insert on the innermost frame: find frames that end up last is model-dependent; just count
            m = run_model(root, is_frame, unwrap_spec, ACT)["A"]
            if m[0] and ACT.get(id(m[0][-1]), ("",))[0] == "insert" and m[1] is None:
                res.count("cases_insert_innermost")
            judge(root, describe(root))
        return res

    # ---- exhaustive leg: all trees with <= max_nodes nodes over a small alphabet ------------------
    def trees(n, styles):
        """all item trees with exactly n nodes; leaves are frame placeholders ('F') or W()"""
        if n == 1:
            yield "F"
            for s in styles:
                yield (s, ())
            return
        for s in styles:
            for parts in compositions(n - 1):
                for kids in itertools.product(*[list(trees(p, styles)) for p in parts]):
                    yield (s, kids)

    def compositions(n):
        if n == 0:
            yield ()
            return
        for first in range(1, n + 1):
            for rest in compositions(n - first):
                yield (first,) + rest

    def build(t, pool):
        if t == "F":
            return pool.pop(0)
        return W(t[0], [build(k, pool) for k in t[1]])

    styles = ["tuple", "iter", "single"]
    all_trees = []
    for n in range(1, spec["max_nodes"] + 1):
        all_trees.extend(t for t in trees(n, styles) if t != "F")
    acts = [None, ("prune",), ("replace1",), ("replace2",), ("insert1",)]
    idx = 0
    for t in all_trees:
        nframes = repr(t).count("'F'")
        if nframes == 0 or nframes > 3:
            continue
        for combo in itertools.product(acts, repeat=nframes):
            for extra in (None, "prune", "insert1"):
                idx += 1
                if idx % spec["parts"] != spec["part"]:
                    continue
                if budget.over():
                    res.count("budget_cut")
                    res.sample({"leg": "exhaustive", "cut_at": idx})
                    return res
                pool = FR[:]
                root = build(t, pool)
                used = FR[: len(FR) - len(pool)]
                ACT.clear()
                fresh = []
                for f, a in zip(used, combo):
                    if a is None:
                        continue
                    if a[0] == "prune":
                        ACT[id(f)] = ("prune", [])
                    elif a[0] == "replace1":
                        x = pool.pop(0)
                        fresh.append(x)
                        ACT[id(f)] = ("replace", [x])
                    elif a[0] == "replace2":
                        x, y = pool.pop(0), pool.pop(0)
                        fresh += [x, y]
                        ACT[id(f)] = ("replace", [W("tuple", [x]), y])
                    elif a[0] == "insert1":
                        x = pool.pop(0)
                        fresh.append(x)
                        ACT[id(f)] = ("insert", [x])
                if extra and fresh:
                    # a hook on the first frame that was itself inserted/substituted
                    if extra == "prune":
                        ACT[id(fresh[0])] = ("prune", [])
                        res.count("cases_with_prune_by_inserted")
                    elif pool:
                        ACT[id(fresh[0])] = ("insert", [pool.pop(0)])
                elif extra:
                    continue
                SINGLE["v"] = idx % 2 == 0
                EMPTY["v"] = ((), [], PRUNE)[idx % 3]
                m = run_model(root, is_frame, unwrap_spec, ACT)["A"]
                if m[0] and ACT.get(id(m[0][-1]), ("",))[0] == "insert" and m[1] is None:
                    res.count("cases_insert_innermost")
                judge(root, describe(root))
    res.count("exhaustive_parts_completed")
    return res
