"""C17 - library glue is installed exactly once, in time, module-provided beats built-in.

Deciding method: (a) sequential histories checked against a reference model of the documented
rule (per module object: glue call count <= 1 at all times, = 1 after the first extraction that
started while it was present, never both kinds, a raising glue gives exactly one RuntimeWarning
and does not stop the others); (b) controlled schedules: threads calling extract concurrently are
stepped through the guarded hook points of add_glue_as_needed by a controller - exhaustive DFS
over the interleavings of 2 threads, random schedules for 3-4 - with the same counts plus
"in time": no extract returns before the glue of every module present when it started has
finished.
"""
import sys

PROPERTY = "C17"
LEVEL = "exploration"
TECHNIQUE = "runtime monitoring: history reference model + controller-enumerated thread schedules through guarded hook points"
RULE = ("histories: random sequences of {insert module with module glue / built-in glue / both / neither / raising glue, "
        "remove, re-insert the same or a new module object, extract}; schedules: 2 threads x all interleavings of the "
        "hook points (start, fastpath_missed, lock_acquired, before_glue_call*, scan_done, lock_released, returned) "
        "explored depth-first, 3-4 threads under random schedules, with 1-3 fresh modules of every glue flavour. "
        "non-trivial = history with >= 1 glue call expected / schedule in which >= 2 threads were inside the "
        "installation routine's hook region; distinct by history text / schedule choice sequence")
ASSUMPTIONS = ["fresh subprocess per shard; test modules are synthetic ModuleType objects inserted into sys.modules",
               "a thread that does not reach its next hook point within 50 ms is treated as blocked on glue_lock "
               "(scheduling heuristic only; never a verdict)"]
MIN_NONTRIVIAL = {"quick": 1500, "thorough": 30000}
REQUIRED_COUNTERS = {"entry_extract_outermost": {"quick": 500, "thorough": 5000},
                     "histories": {"quick": 1500, "thorough": 30000},
                     "helper_modules_imported_during_scan": {"quick": 100, "thorough": 2000},
                     "late_module_injections": {"quick": 200, "thorough": 4000},
                     "linepause_cases": {"quick": 100, "thorough": 200},
                     "schedules_2threads": {"quick": 300, "thorough": 5000},
                     "schedules_random": {"quick": 40, "thorough": 1000},
                     "schedules_with_overlap": {"quick": 200, "thorough": 4000},
                     "raising_glue_cases": {"quick": 100, "thorough": 2000}}
SHARD_TIMEOUT = {"quick": 400, "thorough": 5400}
INTERPS = ["3.12", "3.11", "3.10", "3.9"]
EXHAUSTIVE = {"quick": False, "thorough": False}


def plan(tier, seed):
    shards = []
    for interp in INTERPS:
        for s in range(2):
            shards.append({"interp": interp, "leg": "histories", "seed": seed * 100 + s,
                           "n": 2500 if tier == "quick" else 40000, "budget_s": 40 if tier == "quick" else 1200})
    for interp in ("3.12", "3.11"):
        for cfg in range(10):
            shards.append({"interp": interp, "leg": "dfs", "seed": seed, "config": cfg,
                           "max_schedules": 400 if tier == "quick" else 20000, "budget_s": 45 if tier == "quick" else 1500})
        shards.append({"interp": interp, "leg": "linepause", "seed": seed, "budget_s": 45 if tier == "quick" else 900})
        shards.append({"interp": interp, "leg": "random", "seed": seed * 100 + 3,
                       "n": 400 if tier == "quick" else 8000, "budget_s": 45 if tier == "quick" else 1500})
    return shards


FLAVORS = ["module", "builtin", "both", "neither", "raising_module", "raising_builtin"]
HIST_FLAVORS = FLAVORS + ["importing_module", "importing_builtin"]


def worker(spec):
    import collections
    import random
    import threading
    import types
    import warnings
    from vlib.worker import Result
    from vlib import ctxwork
    import stackscope
    from stackscope import _glue

    res = Result()
    interp = "%d.%d" % sys.version_info[:2]
    budget = ctxwork.Budget(spec.get("budget_s", 60))
    rng = random.Random(spec["seed"])
    stackscope.extract(0)
    LOG = []  # (event, kind, name, module id, thread ident)
    names = ["vvmod%d" % i for i in range(5)]
    cache = _glue.add_glue_as_needed.__kwdefaults__["_sys_modules_len_cache"]

    IMPORTED = []   # modules inserted by a glue function while the scan was running

    def import_helper():
        """what a real glue function does when it imports a sibling module that has glue itself"""
        n = "vvhelper%d" % len(IMPORTED)
        h = mk(n, "module")
        sys.modules[n] = h
        IMPORTED.append(h)

    class HostileError(Exception):
        """an exception that cannot be rendered: __str__ reads an attribute __init__ never set"""

        def __str__(self):
            return self.detail

    def boom():
        return HostileError() if rng.random() < 0.5 else ValueError("boom")

    def mk(name, flavor):
        m = types.ModuleType(name)
        if flavor in ("module", "both", "raising_module", "importing_module"):
            def g(m=m, flavor=flavor):
                LOG.append(("start", "module", name, id(m), threading.get_ident()))
                try:
                    if flavor == "raising_module":
                        raise boom()
                    if flavor == "importing_module":
                        import_helper()
                finally:
                    LOG.append(("end", "module", name, id(m), threading.get_ident()))
            m._stackscope_install_glue_ = g
        return m

    def mk_builtin(name, flavor):
        def b():
            LOG.append(("start", "builtin", name, None, threading.get_ident()))
            try:
                if flavor == "raising_builtin":
                    raise boom()
                if flavor == "importing_builtin":
                    import_helper()
            finally:
                LOG.append(("end", "builtin", name, None, threading.get_ident()))
        return b

    class _EmptyOK(object):
        error = None

    EMPTY_OK = _EmptyOK()

    def reset():
        for n in names + [h.__name__ for h in IMPORTED] + ["vvlate"]:
            sys.modules.pop(n, None)
            _glue.builtin_glue_pending.pop(n, None)
        del IMPORTED[:]
        stackscope.extract(0)
        del LOG[:]

    # ---------------------------------------------------------------------------------------------
    if spec["leg"] == "histories":
        for hist in range(spec["n"]):
            if budget.over():
                res.count("budget_cut")
                break
            reset()
            present = {}
            pending_b = {}
            modglue = {}
            modflavor = {}
            builtin_registered = set()
            reg_problem = []
            state = {"last_end": 0}   # length of LOG when the previous extraction / registration returned
            retired = []  # module objects removed earlier (candidates for re-insertion)
            ops = []
            res.evaluations += 1
            res.count("histories")
            expected_any = False
            for step in range(rng.randint(2, 9)):
                op = rng.choice(["add", "add", "remove", "extract", "extract", "readd"])
                if op == "add":
                    n = rng.choice(names)
                    if n in present:
                        continue
                    flavor = rng.choice(HIST_FLAVORS)
                    m = mk(n, flavor)
                    # stackscope registers at most one built-in glue per module name (builtin_glue asserts it);
                    # registration goes through the real decorator, either before the module is there (the
                    # entry waits) or after (imported before stackscope: the decorator acts at once)
                    with_builtin = flavor in ("builtin", "both", "raising_builtin", "importing_builtin") \
                        and n not in _glue.builtin_glue_pending and n not in builtin_registered
                    reg_first = rng.random() < 0.5

                    def register():
                        builtin_registered.add(n)
                        pending_b[n] = flavor
                        mark = len(LOG)
                        with warnings.catch_warnings(record=True) as wreg:
                            warnings.simplefilter("always")
                            try:
                                _glue.builtin_glue(n)(mk_builtin(n, flavor))
                            except Exception as ex:  # noqa
                                reg_problem.append("builtin_glue(%r) registration raised %r" % (n, ex))
                        wglue = [x for x in wreg if issubclass(x.category, RuntimeWarning) and "glue" in str(x.message)]
                        ran = [(e[1], e[2], e[3]) for e in LOG[mark:] if e[0] == "start"]
                        # with the module already there the decorator may install at once - whichever glue is due
                        # for that module, at most once - or leave it to the next extraction; anything else is wrong
                        mod = present.get(n)
                        if mod is not None and modglue.get(id(mod)):
                            due = ("module", n, id(mod))
                            raising = modflavor.get(id(mod)) == "raising_module"
                        elif mod is not None:
                            due = ("builtin", n, None)
                            raising = flavor == "raising_builtin"
                        else:
                            due = None
                            raising = False
                        if ran and (due is None or ran != [due]):
                            reg_problem.append("registering built-in glue for %r ran %r (due: %r)" % (n, ran, due))
                        elif ran:
                            res.count("glue_installed_at_registration")
                            if due[0] == "module":
                                modglue[id(mod)] = False
                            pending_b.pop(n, None)   # never both kinds
                            if len(wglue) != (1 if raising else 0):
                                reg_problem.append("%d glue warnings at registration, raising=%r" % (len(wglue), raising))
                        elif wglue:
                            reg_problem.append("glue warning at registration although nothing ran")
                        state["last_end"] = len(LOG)

                    if with_builtin and reg_first:
                        register()
                    sys.modules[n] = m
                    present[n] = m
                    modglue[id(m)] = flavor in ("module", "both", "raising_module", "importing_module")
                    modflavor[id(m)] = flavor
                    if with_builtin and not reg_first:
                        res.count("builtin_registered_with_module_present")
                        register()
                    ops.append(("add", n, flavor) + ((("registered-first",) if reg_first else ("registered-after",))
                                                      if with_builtin else ()))
                    if reg_problem:
                        res.violation(kind="glue history", history=repr(ops), problem=reg_problem[0], interp=interp,
                                      mechanism=None)
                        break
                elif op == "readd":
                    cands = [m for m in retired if m.__name__ not in present]
                    if not cands:
                        continue
                    m = rng.choice(cands)
                    sys.modules[m.__name__] = m
                    present[m.__name__] = m
                    ops.append(("re-insert", m.__name__))
                elif op == "remove":
                    if not present:
                        continue
                    n = rng.choice(sorted(present))
                    retired.append(present[n])
                    del sys.modules[n]
                    del present[n]
                    ops.append(("remove", n))
                else:
                    before = len(LOG)
                    len_now = len(sys.modules)
                    cached = cache[0]
                    helpers_before = list(IMPORTED)   # appeared before this extraction started
                    # any of the public entry points is "an extraction"
                    entry = rng.choice(("extract", "extract", "extract_outermost", "extract_since", "extract_until"))
                    res.count("entry_" + entry)
                    with warnings.catch_warnings(record=True) as w:
                        warnings.simplefilter("always")
                        if entry == "extract":
                            s = stackscope.extract(0)
                        elif entry == "extract_outermost":
                            try:
                                stackscope.extract_outermost(0)
                            except RuntimeError:
                                pass
                            s = EMPTY_OK
                        elif entry == "extract_since":
                            s = stackscope.extract_since(sys._getframe(0))
                        else:
                            s = stackscope.extract_until(sys._getframe(0), limit=1)
                    ops.append((entry,))
                    exp = []
                    exp_raising = 0
                    # helper modules inserted by glue during an earlier scan are present now
                    for h in helpers_before:
                        if h.__name__ not in present and sys.modules.get(h.__name__) is h:
                            present[h.__name__] = h
                            modglue[id(h)] = True
                            modflavor[id(h)] = "module"
                            res.count("helper_modules_imported_during_scan")
                    for n, m in present.items():
                        if modglue.get(id(m)):
                            exp.append(("module", n, id(m)))
                            modglue[id(m)] = False
                            pending_b.pop(n, None)  # never both kinds
                            if modflavor.get(id(m)) == "raising_module":
                                exp_raising += 1
                        elif n in pending_b:
                            exp.append(("builtin", n, None))
                            if pending_b.pop(n) == "raising_builtin":
                                exp_raising += 1
                    # nothing may have run between the previous extraction / registration and this extraction
                    got = [(e[1], e[2], e[3]) for e in LOG[state["last_end"]:] if e[0] == "start"]
                    state["last_end"] = len(LOG)
                    glue_warnings = [x for x in w if issubclass(x.category, RuntimeWarning) and "glue" in str(x.message)]
                    if exp:
                        expected_any = True
                    if exp_raising:
                        res.count("raising_glue_cases")
                    problem = None
                    if sorted(map(str, got)) != sorted(map(str, exp)):
                        problem = "glue calls %r, reference says %r" % (got, exp)
                    elif len(glue_warnings) != exp_raising:
                        problem = "%d glue warnings for %d raising glue calls" % (len(glue_warnings), exp_raising)
                    elif s.error is not None:
                        problem = "extract reported %r" % (s.error,)
                    if problem:
                        mech = "same-length-history" if len_now == cached and sorted(map(str, got)) != sorted(map(str, exp)) \
                            and not got else None
                        res.violation(kind="glue history", history=repr(ops), problem=problem, interp=interp,
                                      mechanism=mech, len_sys_modules=len_now, cached_len=cached)
                        break
            c = collections.Counter((e[1], e[2], e[3]) for e in LOG if e[0] == "start")
            if any(v > 1 for v in c.values()):
                res.violation(kind="glue ran twice", history=repr(ops), counts=repr(c), interp=interp)
            byname = collections.defaultdict(set)
            for e in LOG:
                if e[0] == "start":
                    byname[(e[2])].add(e[1])
            if expected_any:
                res.nontrivial(repr(ops))
            if len(res.samples) < 2 and len(ops) >= 5:
                res.sample({"history": repr(ops), "glue_calls": repr([e[1:4] for e in LOG if e[0] == "start"])})
        return res

    # ---------------------------------------------------------------------------------------------
    # schedules through the hook points
    from stackscope import _verifhooks
    if not _verifhooks.ENABLED:
        res.inconclusive.append("hooks not enabled")
        return res

    class Ctl(object):
        def __init__(self, nthreads):
            self.n = nthreads
            self.go = [threading.Semaphore(0) for _ in range(nthreads)]
            self.arrived = [threading.Event() for _ in range(nthreads)]
            self.state = ["init"] * nthreads
            self.idx = {}
            self.trace = []

        free_run = False

        def arrive(self, i, point):
            self.state[i] = point
            self.arrived[i].set()
            if point != "done" and not self.free_run:
                self.go[i].acquire()

        def hook(self, name, *info):
            i = self.idx.get(threading.get_ident())
            if i is None:
                return
            if name in ("fastpath_missed", "lock_acquired", "before_glue_call", "scan_done", "lock_released"):
                self.arrive(i, name)

    def run_schedule(nthreads, flavors, chooser, inject_at=None):
        """one run: fresh modules, nthreads threads each calling extract once; returns (problems, overlap)"""
        reset()
        mods = []
        for j, fl in enumerate(flavors):
            n = names[j]
            m = mk(n, fl)
            sys.modules[n] = m
            if fl in ("builtin", "both", "raising_builtin"):
                _glue.builtin_glue_pending[n] = mk_builtin(n, fl)
            mods.append((n, m, fl))
        ctl = Ctl(nthreads)
        started = [None] * nthreads
        returned = [None] * nthreads
        errors = []
        wlog = []

        def body(i):
            ctl.idx[threading.get_ident()] = i
            ctl.arrive(i, "start")
            started[i] = len(LOG)
            try:
                with warnings.catch_warnings(record=True) as w:
                    warnings.simplefilter("always")
                    s = stackscope.extract(0)
                wlog.extend(w)
                if s.error is not None:
                    errors.append(repr(s.error))
            except BaseException as ex:  # noqa
                errors.append(repr(ex))
            returned[i] = len(LOG)
            ctl.arrive(i, "done")

        _verifhooks.callback = ctl.hook
        threads = [threading.Thread(target=body, args=(i,), daemon=True) for i in range(nthreads)]
        try:
            for t in threads:
                t.start()
            for i in range(nthreads):
                if not ctl.arrived[i].wait(30):
                    return ["watchdog: thread did not start"], False, []
            blocked = set()
            sched = {"lock_owner": None, "overlap": False}
            choices = []
            inside = set()

            def note(i):
                st = ctl.state[i]
                if st == "lock_acquired":
                    sched["lock_owner"] = i
                elif st == "lock_released":
                    if sched["lock_owner"] == i:
                        sched["lock_owner"] = None
                if st in ("fastpath_missed", "lock_acquired", "before_glue_call", "scan_done"):
                    inside.add(i)
                else:
                    inside.discard(i)
                if len(inside) >= 2:
                    sched["overlap"] = True

            def abort(msg):
                ctl.free_run = True
                for k in range(nthreads):
                    ctl.go[k].release()
                    ctl.go[k].release()
                return [msg], False, choices

            steps = 0
            while not all(s == "done" for s in ctl.state):
                steps += 1
                if steps > 500:
                    return abort("watchdog: too many steps")
                # threads blocked on the lock may have progressed on their own
                for i in list(blocked):
                    if ctl.arrived[i].is_set():
                        blocked.discard(i)
                        note(i)
                runnable = [i for i in range(nthreads) if ctl.state[i] != "done" and i not in blocked]
                if not runnable:
                    for i in list(blocked):
                        if ctl.arrived[i].wait(10):
                            blocked.discard(i)
                            note(i)
                            break
                    else:
                        return abort("watchdog: all threads blocked")
                    continue
                if inject_at is not None and steps == inject_at and "late" not in sched:
                    # another thread imports a glue-bearing module while the scan is in progress
                    late = mk("vvlate", "module")
                    sys.modules["vvlate"] = late
                    sched["late"] = late
                i = chooser(runnable)
                choices.append(i)
                prev = ctl.state[i]
                ctl.arrived[i].clear()
                ctl.go[i].release()
                lock_owner = sched["lock_owner"]
                expect_block = prev == "fastpath_missed" and (
                    (lock_owner is not None and lock_owner != i) or bool(blocked))
                if not ctl.arrived[i].wait(0.05 if expect_block else 30):
                    if expect_block:
                        blocked.add(i)
                        continue
                    return abort("watchdog: thread %d stuck after %s" % (i, prev))
                note(i)
            overlap = sched["overlap"]
            for t in threads:
                t.join(10)
        finally:
            _verifhooks.callback = None
        problems = list(errors)
        starts = collections.Counter((e[1], e[2], e[3]) for e in LOG if e[0] == "start")
        for k, v in starts.items():
            if v > 1:
                problems.append("glue %r ran %d times" % (k, v))
        kinds_by_name = collections.defaultdict(set)
        for e in LOG:
            if e[0] == "start":
                kinds_by_name[e[2]].add(e[1])
        for n, ks in kinds_by_name.items():
            if len(ks) > 1:
                problems.append("both kinds of glue ran for %s" % n)
        for n, m, fl in mods:
            want = None
            if fl in ("module", "both", "raising_module"):
                want = ("module", n, id(m))
            elif fl in ("builtin", "raising_builtin"):
                want = ("builtin", n, None)
            if want is None:
                continue
            if starts.get(want, 0) != 1:
                problems.append("glue %r ran %d times, expected exactly once" % (want, starts.get(want, 0)))
            # in time: finished before any thread's extract returned
            ends = [k for k, e in enumerate(LOG) if e[0] == "end" and (e[1], e[2], e[3]) == want]
            for i in range(nthreads):
                if returned[i] is not None and (not ends or ends[0] >= returned[i]):
                    problems.append("thread %d's extract returned before glue %r had finished" % (i, want))
        if sched.get("late") is not None:
            # the first extraction that starts after the late module appeared must install its glue
            stackscope.extract(0)
            late = sched["late"]
            nlate = len([e for e in LOG if e[0] == "end" and e[3] == id(late)])
            res.count("late_module_injections")
            if nlate != 1:
                problems.append("module imported by another thread during the scan: its glue ran %d times by the end "
                                "of the next extraction (expected exactly once)" % nlate)
            sys.modules.pop("vvlate", None)
        nraising = len([1 for n, m, fl in mods if fl.startswith("raising")])
        gw = [x for x in wlog if issubclass(x.category, RuntimeWarning) and "glue" in str(x.message)]
        if len(gw) != nraising:
            problems.append("%d glue warnings for %d raising glue functions" % (len(gw), nraising))
        return problems, overlap, choices

    configs = [
        (2, ["module"]), (2, ["builtin"]), (2, ["both", "raising_module"]), (2, ["raising_builtin", "module"]),
        (2, ["both"]), (2, ["module", "builtin", "neither"]), (2, ["raising_module"]), (2, ["builtin", "both"]),
        (3, ["module"]), (3, ["both", "raising_builtin"]),
    ]

    if spec["leg"] == "dfs":
        nthreads, flavors = configs[spec["config"] % len(configs)]
        # stateless DFS over scheduling choices
        stack = []   # list of [choice_index, n_alternatives]
        nsched = 0
        done = False
        inject_points = [None, 2, 3, 4, 5, 6, 8]
        inject_idx = 0
        while nsched < spec["max_schedules"] and not budget.over():
            if done:
                inject_idx += 1
                if inject_idx >= len(inject_points):
                    break
                done = False
                stack = []
            inject_at = inject_points[inject_idx]
            pos = [0]

            def chooser(runnable):
                k = pos[0]
                pos[0] += 1
                if k < len(stack):
                    stack[k][1] = len(runnable)
                    return runnable[min(stack[k][0], len(runnable) - 1)]
                stack.append([0, len(runnable)])
                return runnable[0]

            problems, overlap, choices = run_schedule(nthreads, flavors, chooser, inject_at)
            del stack[pos[0]:]
            nsched += 1
            res.evaluations += 1
            res.count("schedules_2threads")
            if overlap:
                res.count("schedules_with_overlap")
                res.nontrivial(interp, spec["config"], inject_at, tuple(choices))
            wd = [p for p in problems if p.startswith("watchdog")]
            real = [p for p in problems if not p.startswith("watchdog")]
            if wd:
                res.inconclusive.append(wd[0])
            if real:
                res.violation(kind="glue schedule", threads=nthreads, flavors=flavors, schedule=choices,
                              inject_at=inject_at, problems=real[:4], interp=interp)
            # backtrack
            while stack and stack[-1][0] + 1 >= stack[-1][1]:
                stack.pop()
            if not stack:
                done = True
            else:
                stack[-1][0] += 1
        if done and inject_idx >= len(inject_points) - 1:
            res.count("dfs_exhausted_configs")
        res.sample({"leg": "dfs", "config": [nthreads, flavors], "schedules": nsched, "exhausted": done})
        return res

    # ---- line-level pauses: thread A is stopped at its k-th executed line inside add_glue_as_needed
    # (sys.settrace in that thread only), thread B then runs a whole extraction (it may block on the
    # lock until A resumes), then A resumes.  Same oracle as for the hook-point schedules; this reaches
    # switch points between the hook points.
    if spec["leg"] == "linepause":
        agn_code = _glue.add_glue_as_needed.__code__
        for flavors in (["module"], ["builtin"], ["both"], ["module", "builtin"], ["raising_module", "both"]):
            for k in range(1, 80):
                if budget.over():
                    res.count("budget_cut")
                    break
                reset()
                mods = []
                for j, fl in enumerate(flavors):
                    n = names[j]
                    m = mk(n, fl)
                    sys.modules[n] = m
                    if fl in ("builtin", "both", "raising_builtin"):
                        _glue.builtin_glue_pending[n] = mk_builtin(n, fl)
                    mods.append((n, m, fl))
                paused = threading.Event()
                resume = threading.Event()
                st = {"n": 0, "hit": False}
                returned = {}
                wlog = []

                def local_tracer(frame, event, arg):
                    if event == "line" and not st["hit"]:
                        st["n"] += 1
                        if st["n"] == k:
                            st["hit"] = True
                            paused.set()
                            resume.wait(30)
                    return local_tracer

                def global_tracer(frame, event, arg):
                    return local_tracer if frame.f_code is agn_code else None

                def thread_a():
                    sys.settrace(global_tracer)
                    try:
                        with warnings.catch_warnings(record=True) as w:
                            warnings.simplefilter("always")
                            stackscope.extract(0)
                        wlog.extend(w)
                    finally:
                        sys.settrace(None)
                    returned["a"] = len(LOG)

                def thread_b():
                    with warnings.catch_warnings(record=True) as w:
                        warnings.simplefilter("always")
                        stackscope.extract(0)
                    wlog.extend(w)
                    returned["b"] = len(LOG)

                ta = threading.Thread(target=thread_a, daemon=True)
                ta.start()
                if not paused.wait(5):
                    resume.set()
                    ta.join(30)
                    break   # fewer than k line events: all pause points explored
                tb = threading.Thread(target=thread_b, daemon=True)
                tb.start()
                tb.join(0.05)
                resume.set()
                ta.join(30)
                tb.join(30)
                res.evaluations += 1
                res.count("linepause_cases")
                res.nontrivial(interp, "linepause", tuple(flavors), k)
                problems = []
                starts = collections.Counter((e[1], e[2], e[3]) for e in LOG if e[0] == "start")
                for key, v in starts.items():
                    if v > 1:
                        problems.append("glue %r ran %d times" % (key, v))
                kinds_by_name = collections.defaultdict(set)
                for e in LOG:
                    if e[0] == "start":
                        kinds_by_name[e[2]].add(e[1])
                for n, ks in kinds_by_name.items():
                    if len(ks) > 1:
                        problems.append("both kinds of glue ran for %s" % n)
                for n, m, fl in mods:
                    want = ("module", n, id(m)) if fl in ("module", "both", "raising_module") else (
                        ("builtin", n, None) if fl in ("builtin", "raising_builtin") else None)
                    if want is None:
                        continue
                    if starts.get(want, 0) != 1:
                        problems.append("glue %r ran %d times, expected exactly once" % (want, starts.get(want, 0)))
                    ends = [i for i, e in enumerate(LOG) if e[0] == "end" and (e[1], e[2], e[3]) == want]
                    for who in ("a", "b"):
                        if who in returned and (not ends or ends[0] >= returned[who]):
                            problems.append("thread %s's extract returned before glue %r had finished" % (who, want))
                if problems:
                    res.violation(kind="glue line-pause schedule", flavors=flavors, paused_at_line_event=k,
                                  problems=problems[:4], interp=interp)
        res.sample({"leg": "linepause"})
        return res

    for case in range(spec["n"]):
        if budget.over():
            res.count("budget_cut")
            break
        nthreads = rng.choice((3, 3, 4))
        flavors = [rng.choice(FLAVORS) for _ in range(rng.randint(1, 3))]
        problems, overlap, choices = run_schedule(nthreads, flavors, lambda r: rng.choice(r),
                                                  inject_at=rng.choice((None, None, 1, 2, 3, 4, 5, 6, 7, 9)))
        res.evaluations += 1
        res.count("schedules_random")
        if overlap:
            res.count("schedules_with_overlap")
            res.nontrivial(interp, "random", tuple(flavors), tuple(choices))
        wd = [p for p in problems if p.startswith("watchdog")]
        real = [p for p in problems if not p.startswith("watchdog")]
        if wd:
            res.inconclusive.append(wd[0])
        if real:
            res.violation(kind="glue schedule", threads=nthreads, flavors=flavors, schedule=choices, problems=real[:4],
                          interp=interp)
    res.sample({"leg": "random", "cases": spec["n"]})
    return res
