"""C07 - thread stacks: exact when the thread is blocked, memory-safe when it is racing.

Deciding method: (a) blocked threads: shadow call log + shadow manager log as oracle for
extract(thread); (b) deterministic schedules: the target thread executes its script in lock-step
through gates and the guarded hook points inside inspect_frame / unwrap_thread let a controller
advance it by j gates at the i-th hook firing - every (park position, firing, progress) triple is
enumerated; (c) randomized stress with a 1 us switch interval, also under the debug allocator
(thorough: valgrind memcheck).  Crash = signal; exception out of extract, foreign frames and
per-frame inconsistent context snapshots are violations.
"""
import sys

PROPERTY = "C07"
LEVEL = "exploration"
TECHNIQUE = ("runtime monitoring: shadow-log oracle for blocked threads; controller-enumerated target progress at guarded "
             "hook points; randomized stress with faulthandler / debug allocator / valgrind")
RULE = ("blocked: generated call chains of depth 1..6 with 0..3 (multi-item) with statements per level, parked in "
        "lock.acquire(); unstarted and finished threads. schedules: target script with nested withs, loops, a generator "
        "and try/finally, parked at each of its gates; at hook firing i (attempt_start / slot / after_was_alive / "
        "after_current_frames) the target advances j gates (j up to running to completion, optionally followed by a "
        "decoy thread that may reuse the ident), also progress on every firing. stress: extraction loop against a "
        "free-running target. non-trivial = blocked thread with >=1 context / schedule in which the target moved during "
        "the snapshot; distinct by (interpreter, chain or (script, park, firing, j))")
ASSUMPTIONS = ["pre-emption inside C code cannot occur under the GIL; hook points sit at real switch points only",
               "3.9/3.10: the racing legs are a short thorough-tier confirmation of known finding F10"]
MIN_NONTRIVIAL = {"quick": 1500, "thorough": 20000}
REQUIRED_COUNTERS = {"blocked_threads_checked": {"quick": 300, "thorough": 5000},
                     "blocked_inside_exit_method": {"quick": 50, "thorough": 800},
                     "blocked_inside_aexit_of_a_driven_coroutine": {"quick": 50, "thorough": 800},
                     "schedules": {"quick": 1500, "thorough": 15000},
                     "schedules_target_moved": {"quick": 1000, "thorough": 4000},
                     "schedules_target_moved_at_two_points": {"quick": 1000, "thorough": 4000},
                     "retries_observed": {"quick": 20, "thorough": 200},
                     "inspect_frame_snapshots_checked": {"quick": 20000, "thorough": 120000},
                     "inspect_frame_snapshots_of_executing_frames": {"quick": 2000, "thorough": 25000},
                     "rejections_observed": {"quick": 2, "thorough": 20},
                     "stress_extractions": {"quick": 800, "thorough": 20000},
                     "stress_distinct_positions": {"quick": 20, "thorough": 40}}
SHARD_TIMEOUT = {"quick": 400, "thorough": 5400}
INTERPS = ["3.12", "3.11", "3.10", "3.9"]


def plan(tier, seed):
    shards = []
    for interp in INTERPS:
        for s in range(2):
            shards.append({"interp": interp, "leg": "blocked", "seed": seed * 100 + s,
                           "n": 120 if tier == "quick" else 3000, "budget_s": 40 if tier == "quick" else 1200})
    for interp in ("3.12", "3.11"):
        for script in (0, 1, 2, 3, 4):
            for part in range(2 if tier == "quick" else 4):
                shards.append({"interp": interp, "leg": "schedules", "script": script, "part": part,
                               "parts": 2 if tier == "quick" else 4, "seed": seed,
                               "max_fire": 8 if tier == "quick" else 30,
                               "budget_s": 45 if tier == "quick" else 2400})
        shards.append({"interp": interp, "leg": "stress", "seed": seed, "seconds": 15 if tier == "quick" else 300})
        shards.append({"interp": interp, "leg": "stress", "seed": seed + 1, "seconds": 10 if tier == "quick" else 300,
                       "env": {"PYTHONMALLOC": "debug"}, "tag": "debug-allocator"})
    if tier == "thorough":
        for interp in ("3.10", "3.9"):
            shards.append({"interp": interp, "leg": "stress", "seed": seed, "seconds": 30, "tag": "f10-confirmation",
                           "timeout": 300})
        import os
        from vlib import orch
        log = os.path.join(orch.WORK, "C07", "valgrind.%p.log")
        shards.append({"interp": "3.12", "leg": "stress", "seed": seed + 2, "seconds": 60, "tag": "valgrind",
                       "env": {"PYTHONMALLOC": "malloc"}, "timeout": 3000,
                       "wrapper": ["valgrind", "--tool=memcheck", "--error-exitcode=0", "--log-file=" + log,
                                   "--num-callers=30"]})
    return shards


def classify_crash(spec, signum, tail):
    interp = spec.get("interp")
    if interp in ("3.9", "3.10") and spec.get("leg") == "stress" and "stackscope" in tail:
        # F10: the 3.10 reader turns raw value-stack addresses of a *running* frame into object references
        # without a consistency re-check.  Where the process then dies varies from run to run: inside the
        # reader, in _contexts_active_by_trickery where the result is first touched, when those references
        # are dropped on return, or later still - so on these interpreters a crash of the racing leg cannot
        # be attributed to anything more specific than this mechanism (the racing leg runs there only as
        # the thorough tier's short confirmation of F10; blocked and scheduled legs stay strict).
        return {"kind": "crash", "signal": signum, "mechanism": "py310-racing-reader", "interp": interp,
                "detail": "worker killed by signal %d while inspecting a racing thread through the 3.10 frame "
                          "reader" % signum}
    if "stackscope" in tail:
        return {"kind": "crash", "signal": signum, "interp": interp,
                "detail": "worker killed by signal %d with stackscope frames on a thread" % signum}
    return None


def worker(spec):
    from vlib.worker import Result
    res = Result()
    leg = spec["leg"]
    if leg == "blocked":
        return blocked_leg(spec, res)
    if leg == "schedules":
        return schedules_leg(spec, res)
    return stress_leg(spec, res)


# ---------------------------------------------------------------------------------------------
def blocked_leg(spec, res):
    import random
    import threading
    import time
    import warnings
    from vlib import shadow, drive, ctxmon, ctxwork
    import stackscope

    interp = "%d.%d" % sys.version_info[:2]
    budget = ctxwork.Budget(spec.get("budget_s", 60))
    rng = random.Random(spec["seed"])
    for case in range(spec["n"]):
        if budget.over():
            res.count("budget_cut")
            break
        depth = rng.randint(1, 6)
        lines = []
        k = 0
        for lvl in range(depth):
            lines.append("def L%d():" % lvl)
            lines.append("    CALLLOG.append(sys._getframe(0))")
            ind = 1
            for w in range(rng.randint(0, 3)):
                items = []
                for _ in range(rng.choice((1, 1, 2, 3))):
                    k += 1
                    items.append("S(%d) as v%d" % (k, k) if rng.random() < 0.6 else "S(%d)" % k)
                lines.append("    " * ind + "with %s:" % ", ".join(items))
                ind += 1
                if rng.random() < 0.3:
                    lines.append("    " * ind + "for _i in (1,):")
                    ind += 1
                elif rng.random() < 0.2:
                    lines.append("    " * ind + "try:")
                    lines.append("    " * (ind + 1) + "pass")
                    lines.append("    " * ind + "finally:")
                    ind += 1
            if lvl + 1 < depth:
                lines.append("    " * ind + "L%d()" % (lvl + 1))
            elif rng.random() < 0.25:
                # the thread drives a coroutine by hand and is blocked inside the __aexit__ of its async with:
                # a *running* coroutine frame in the middle of an await
                lines.append("    " * ind + "DRIVE(CO())")
                lines.append("async def CO():")
                lines.append("    CALLLOG.append(sys._getframe(0))")
                cind = 1
                if rng.random() < 0.5:
                    k += 1
                    lines.append("    with S(%d) as v%d:" % (k, k))
                    cind = 2
                k += 1
                lines.append("    " * cind + "async with APEXIT(%d):" % k)
                lines.append("    " * (cind + 1) + "pass")
                res.count("blocked_inside_aexit_of_a_driven_coroutine")
            elif rng.random() < 0.4:
                # blocked *inside an exit method*; half of the time one defined under another name
                k += 1
                lines.append("    " * ind + "with %s(%d):" % (rng.choice(("PEXIT", "PEXIT_ALIAS")), k))
                lines.append("    " * (ind + 1) + "pass")
                res.count("blocked_inside_exit_method")
            else:
                lines.append("    " * ind + "PARK()")
        src = "\n".join(lines) + "\n"
        run = shadow.Run(case, "running")
        run.p_enterfail = run.p_exitfail = 0.0
        run.probe_cb = lambda tag: None
        ns = run.namespace()
        lock = threading.Lock()
        lock.acquire()
        ready = threading.Event()
        calllog = []

        def PARK():
            calllog.append(sys._getframe(0))
            ready.set()
            lock.acquire()

        class PEXIT(object):
            is_async = False

            def __init__(s, k):
                s.k = k
                s.owner = id(sys._getframe(1))

            def __repr__(s):
                return "<%s k=%d>" % (type(s).__name__, s.k)

            def __enter__(s):
                run.log.append(("es", s))
                run.log.append(("ee", s))
                return s

            def __exit__(s, *e):
                run.log.append(("xs", s))
                try:
                    PARK()
                finally:
                    run.log.append(("xe", s))

        class PEXIT_ALIAS(PEXIT):
            def release(s, *e):
                return PEXIT.__exit__(s, *e)

            __exit__ = release

        class APEXIT(object):
            is_async = True

            def __init__(s, k):
                s.k = k
                s.owner = id(sys._getframe(1))

            def __repr__(s):
                return "<APEXIT k=%d>" % s.k

            async def __aenter__(s):
                run.log.append(("es", s))
                run.log.append(("ee", s))
                return s

            async def __aexit__(s, *e):
                run.log.append(("xs", s))
                try:
                    PARK()
                finally:
                    run.log.append(("xe", s))

        def DRIVE(co):
            try:
                co.send(None)
            except StopIteration:
                pass

        ns.update(CALLLOG=calllog, PARK=PARK, sys=sys, PEXIT=PEXIT, PEXIT_ALIAS=PEXIT_ALIAS, APEXIT=APEXIT, DRIVE=DRIVE)
        code, filename = drive.compile_program(src, "blk")
        exec(code, ns)
        th = threading.Thread(target=ns["L0"])
        # unstarted: no frames
        s = stackscope.extract(th)
        if s.frames or s.error is not None:
            res.violation(kind="unstarted thread has frames/error", interp=interp)
        th.start()
        ready.wait(30)
        inner = None
        for _ in range(5000):
            fr = sys._current_frames().get(th.ident)
            if fr is not None and fr.f_code is PARK.__code__ and fr.f_lasti > 0:
                # resting in lock.acquire(): the position no longer changes
                a = fr.f_lasti
                time.sleep(0.002)
                if sys._current_frames().get(th.ident) is fr and fr.f_lasti == a:
                    inner = fr
                    break
            time.sleep(0.001)
        if inner is None:
            res.inconclusive.append("thread did not park")
            lock.release()
            th.join(10)
            continue
        res.evaluations += 1
        res.count("blocked_threads_checked")
        with warnings.catch_warnings(record=True) as w:
            warnings.simplefilter("always")
            s = stackscope.extract(th)
        walk = []
        f = inner
        while f is not None:
            walk.append(f)
            f = f.f_back
        walk.reverse()
        problems = []
        got = [fr.pyframe for fr in s.frames]
        if len(got) != len(walk) or any(a is not b for a, b in zip(got, walk)):
            problems.append("frames differ from the f_back walk: %r vs %r" % (
                [x.f_code.co_name for x in got], [x.f_code.co_name for x in walk]))
        mine = [x for x in got if any(x is c for c in calllog)]
        if len(mine) != len(calllog) or any(a is not b for a, b in zip(mine, calllog)):
            problems.append("frames differ from the shadow call log")
        if s.error is not None:
            problems.append("error %r" % (s.error,))
        if ctxmon.insp_warnings(w):
            problems.append("InspectionWarning %s" % ctxmon.insp_warnings(w)[0])
        nctx = 0
        for fr in s.frames:
            exp = run.truth(id(fr.pyframe))
            nctx += len(exp)
            p = ctxmon.compare_exact(fr.contexts, exp)
            if p:
                problems.append("%s: %s; got %r expected %r" % (fr.funcname, p, [ctxmon.brief_ctx(c) for c in fr.contexts],
                                                               ctxmon.brief_truth(exp)))
        hidden = [fr.funcname for fr in s.frames if fr.hide]
        if nctx:
            res.nontrivial(interp, "blocked", spec["seed"], case)
        if problems:
            res.violation(kind="blocked thread", problems=problems[:3], source=src, interp=interp)
        if len(res.samples) < 1 and nctx >= 3:
            res.sample({"leg": "blocked", "source": src, "hidden_bootstrap_frames": hidden})
        lock.release()
        th.join(30)
        s = stackscope.extract(th)
        res.count("finished_threads_checked")
        if s.frames or s.error is not None:
            res.violation(kind="finished thread has frames/error", frames=[f.funcname for f in s.frames],
                          error=repr(s.error), interp=interp)
    return res


# ---------------------------------------------------------------------------------------------
class Target(object):
    """target thread executing a script in lock-step through gates"""

    def __init__(self, script):
        import threading
        import _thread
        self.log = []
        # raw locks used as binary semaphores (strictly alternating hand-off), so that a script can
        # park with a C-level call made directly from its own frame (the frame is then *executing*:
        # no saved stack pointer)
        self.reached = _thread.allocate_lock()
        self.reached.acquire()
        self.go = _thread.allocate_lock()
        self.go.acquire()
        self.pos = 0
        self.done = False
        self.truth = {}     # gate position -> {id(frame): [(mgr, exiting)]}
        self.facts = {}     # gate position -> {id(frame): (f_lasti, saved stack pointer, frame)}
        self.codes = set()
        self.script = script
        self.thread = threading.Thread(target=self._body)
        target = self

        class M(object):
            def __init__(s, n):
                s.n = n
                s.owner = id(sys._getframe(1))

            def __enter__(s):
                target.log.append(("ee", s))
                return s

            def __exit__(s, *e):
                target.log.append(("xs", s))
                target.gate("in exit %d" % s.n)
                target.log.append(("xe", s))

            def __repr__(s):
                return "<M %d>" % s.n

        self.M = M
        self.codes.add(M.__exit__.__code__)

    def fold(self):
        ent = {}
        exiting = None
        order = []
        for ev, m in self.log:
            if ev == "ee":
                order.append(m)
            elif ev == "xs":
                exiting = m
            elif ev == "xe":
                order.remove(m)
                exiting = None
        out = {}
        for m in order:
            out.setdefault(m.owner, []).append((m, m is exiting))
        return out

    def gate(self, tag):
        self.pos += 1
        self.truth[self.pos] = self.fold()
        self.reached.release()
        self.go.acquire()

    def note(self):
        """first half of an inline gate: `t.note(); R(); G()` with R/G the raw lock methods"""
        self.pos += 1
        self.truth[self.pos] = self.fold()

    def _body(self):
        try:
            self.script(self)
        finally:
            self.done = True
            self.pos += 1
            self.truth[self.pos] = {}
            self.reached.release()

    def start(self):
        self.thread.start()
        self.reached.acquire()
        self.record()

    def record(self):
        # the target is parked: read the facts of its frames at this position
        self.facts[self.pos] = {} if self.done else frame_facts(self.thread)

    def advance(self, j):
        for _ in range(j):
            if self.done:
                return
            self.go.release()
            self.reached.acquire()
            self.record()

    def finish(self):
        while not self.done:
            self.advance(1)
        self.thread.join(30)


def script0(t):
    M = t.M
    gate = t.gate

    def t_main():
        gate("start")
        t_outer()
        gate("after outer")
        t_outer()
        gate("end")

    def t_outer():
        with M(1) as a:  # noqa
            gate("in with1")
            t_inner()
            gate("after inner")
            for x in (1, 2):
                with M(3):
                    gate("loop with3")
        gate("after with1")

    def t_inner():
        with M(2):
            gate("in with2")
        gate("inner after with2")

    for f in (t_main, t_outer, t_inner):
        t.codes.add(f.__code__)
    t_main()


def script1(t):
    M = t.M
    gate = t.gate

    def g_gen():
        with M(10), M(11) as b:  # noqa
            gate("gen in with")
            yield 1
            gate("gen resumed")
        yield 2

    def t_main():
        gate("start")
        try:
            with M(20) as a, M(21):  # noqa
                for v in g_gen():
                    gate("consumer got %r" % v)
                    with M(22):
                        pass
        finally:
            with M(23):
                gate("in finally with")
        helper(3)
        gate("end")

    def helper(n):
        if n:
            with M(30 + n):
                helper(n - 1)
        else:
            gate("helper bottom")

    for f in (t_main, g_gen, helper):
        t.codes.add(f.__code__)
    t_main()


def script2(t):
    """alternates between two gate call sites inside one frame, so that f_lasti differs on every
    attempt when the target advances at every hook firing: the 10-attempt budget is exhausted"""
    M = t.M
    gate = t.gate

    def t_main():
        with M(40) as a:  # noqa
            for i in range(30):
                gate("a")
                gate("b")
        gate("end")

    t.codes.add(t_main.__code__)
    t_main()


def script3(t):
    """parks with C-level lock calls made directly from the script frame, moving between regions of
    different handler depth (inside nested withs / a try / outside everything)"""
    M = t.M
    note = t.note
    R = t.reached.release
    G = t.go.acquire

    def t_main():
        note(); R(); G()
        with M(50) as a:  # noqa
            note(); R(); G()
            with M(51), M(52):
                note(); R(); G()
                for q in (1, 2):
                    note(); R(); G()
            note(); R(); G()
        note(); R(); G()
        try:
            note(); R(); G()
            t_leaf()
        finally:
            note(); R(); G()
        note(); R(); G()

    def t_leaf():
        note(); R(); G()
        with M(53):
            note(); R(); G()
        note(); R(); G()

    t.codes.add(t_main.__code__)
    t.codes.add(t_leaf.__code__)
    t_main()


def script4(t):
    """a loop whose body holds two managers at one gate and none at the next: moving one gate leaves the
    with block, moving two comes back to the *same instruction* of the next iteration (same stack depth,
    other objects) - what a reader that re-checks only f_lasti cannot tell from not having moved"""
    M = t.M
    gate = t.gate

    def t_main():
        for i in range(12):
            with M(60 + i) as a, M(160 + i):  # noqa
                gate("in")
            gate("out")
        gate("end")

    t.codes.add(t_main.__code__)
    t_main()


SCRIPTS = [script0, script1, script2, script3, script4]



def frame_facts(thread):
    """Ground truth read by the *controller* while the target is parked (quiescent): for every frame
    on the target thread's stack its f_lasti and saved stack pointer (ctypes read of the interpreter
    frame; -1 = executing, i.e. parked in a C-level call made directly from that frame)."""
    facts = {}
    if sys.version_info < (3, 11):
        return facts
    from stackscope import _lowlevel_cpython_311 as impl
    f = sys._current_frames().get(thread.ident)
    while f is not None:
        try:
            iframe = impl.FrameObject.from_address(id(f)).f_frame.contents
            facts[id(f)] = (f.f_lasti, iframe.stacktop, f)
        except Exception:
            pass
        f = f.f_back
    return facts


def install_snapshot_oracle(problems, state):
    """Oracle at the boundary of lowlevel.inspect_frame (3.11+) for targets that only move inside hook
    callbacks.  The controller records, at every gate position, the facts of every target frame
    (frame_facts).  A snapshot returned for frame f must equal what *one* position p between the
    position at which the extraction started and the current one implies for f:
      number of value-stack slots = saved stack pointer - nlocalsplus, or (executing frame) the depth
                                    of the exception-table entry covering f_lasti at p;
      handler chain               = the chain obtained from f_lasti at p (stdlib dis parser).
    Extent from one position combined with f_lasti / handlers of another matches no p."""
    import dis
    from stackscope import _lowlevel as LL
    LL.inspect_frame(sys._getframe(0))   # resolve the lazy implementation import
    orig = LL.inspect_frame
    counter = {"checked": 0, "executing": 0, "frame_gone": 0}
    if sys.version_info < (3, 11):
        return counter
    cache = {}

    def table(co):
        t = cache.get(co)
        if t is None:
            t = cache[co] = list(dis._parse_exception_table(co))
        return t

    def implied(co, lasti, stacktop):
        nlocalsplus = len(set(co.co_varnames + co.co_cellvars)) + len(co.co_freevars)
        chain = []
        cur = lasti
        for _ in range(64):
            for e in table(co):
                if e.start <= cur < e.end:
                    chain.append(e.target)
                    cur = e.target
                    break
            else:
                break
        chain.reverse()
        if stacktop != -1:
            n = stacktop - nlocalsplus
        else:
            n = 0
            for e in table(co):
                if e.start <= lasti < e.end:
                    n = e.depth
                    break
        return n, chain

    def checked(frame):
        d = orig(frame)
        tgt = state.get("target")
        if tgt is None:
            return d
        counter["checked"] += 1
        cands = []
        for p in range(state["p_before"], tgt.pos + 1):
            fct = tgt.facts.get(p, {}).get(id(frame))
            if fct is not None and fct[2] is frame:
                cands.append((p,) + fct[:2])
        if not cands or id(frame) not in tgt.facts.get(tgt.pos, {}):
            counter["frame_gone"] += 1   # frame left the target's stack meanwhile: not judged
            return d
        got = (len(d.stack), [b.handler for b in d.blocks])
        for p, lasti, stacktop in cands:
            if stacktop == -1:
                counter["executing"] += 1
            if got == tuple(implied(frame.f_code, lasti, stacktop)):
                return d
        if len(problems) < 5:
            problems.append("inspect_frame(%s) returned %d stack slots with handler chain %r; no single position in "
                            "[%d, %d] implies that: %r" % (
                                frame.f_code.co_name, got[0], got[1], state["p_before"], tgt.pos,
                                [(p,) + tuple(implied(frame.f_code, l, st)) for p, l, st in cands][:4]))
        return d

    LL.inspect_frame = checked
    return counter


def schedules_leg(spec, res):
    import io
    import threading
    import warnings
    from vlib import ctxwork, ctxmon
    import stackscope
    from stackscope import _verifhooks

    interp = "%d.%d" % sys.version_info[:2]
    budget = ctxwork.Budget(spec.get("budget_s", 60))
    if not _verifhooks.ENABLED:
        res.inconclusive.append("hooks not enabled")
        return res
    script = SCRIPTS[spec["script"]]
    boot = {getattr(threading.Thread, n).__code__ for n in ("run", "_bootstrap", "_bootstrap_inner")
            if hasattr(threading.Thread, n)}
    snapshot_problems = []
    snap_state = {}
    snap_counter = install_snapshot_oracle(snapshot_problems, snap_state)

    # number of gates
    t = Target(script)
    t.start()
    ngates = 1
    while not t.done:
        t.advance(1)
        ngates += 1
    t.thread.join()

    PLAN = {}
    decoys = []

    def on_point(name, *info):
        if threading.current_thread() is not threading.main_thread():
            return
        if name not in ("attempt_start", "slot", "snapshot_accepted", "after_was_alive", "after_current_frames"):
            return
        PLAN["kinds"][name] = PLAN["kinds"].get(name, 0) + 1
        if name == "attempt_start":
            PLAN["attempts"].setdefault(id(info[0]), 0)
            PLAN["attempts"][id(info[0])] += 1
        tgt = PLAN["target"]
        # firings are numbered over the interesting ones only: the thread-level points and the
        # snapshot points of the target's *own* functions (not the thread bootstrap frames)
        if name in ("attempt_start", "slot", "snapshot_accepted") and info[0].f_code not in tgt.codes:
            if not PLAN["every"]:
                return
        PLAN["fired"] += 1
        second = PLAN.get("second")
        if second is not None and PLAN["fired"] == second[0]:
            before = tgt.pos
            tgt.advance(second[1])
            if tgt.pos != before:
                PLAN["moved"] = True
                PLAN["moved_twice"] = True
        elif PLAN["every"] or PLAN["fired"] == PLAN["fire_at"]:
            before = tgt.pos
            tgt.advance(PLAN["j"])
            if tgt.pos != before:
                PLAN["moved"] = True
            if PLAN.get("decoy") and tgt.done and not PLAN.get("decoy_started"):
                PLAN["decoy_started"] = True
                tgt.thread.join(10)
                ev = threading.Event()
                rdy = threading.Event()

                def decoy_body():
                    rdy.set()
                    ev.wait(30)

                d = threading.Thread(target=decoy_body, daemon=True)
                d.start()
                rdy.wait(5)
                decoys.append((d, ev))
                if d.ident == tgt.thread.ident:
                    PLAN["ident_reused"] = True

    def run_case(park, fire_at, j, every=False, decoy=False, second=None):
        tgt = Target(script)
        tgt.start()
        tgt.advance(park - 1)
        p_before = tgt.pos
        snap_state.update(target=tgt, p_before=p_before)
        PLAN.clear()
        PLAN.update(fire_at=fire_at, j=j, fired=0, every=every, target=tgt, kinds={}, attempts={}, moved=False,
                    decoy=decoy, second=second)
        _verifhooks.callback = on_point
        old = sys.stderr
        sys.stderr = io.StringIO()
        raised = None
        s = None
        try:
            with warnings.catch_warnings(record=True) as w:
                warnings.simplefilter("always")
                try:
                    s = stackscope.extract(tgt.thread)
                except BaseException as e:  # noqa
                    raised = e
        finally:
            sys.stderr = old
            _verifhooks.callback = None
        p_after = tgt.pos
        snap_state["target"] = None
        res.evaluations += 1
        res.count("schedules")
        if PLAN["moved"]:
            res.count("schedules_target_moved")
            res.nontrivial(interp, spec["script"], park, fire_at, j, every, decoy, second)
        if PLAN.get("moved_twice"):
            res.count("schedules_target_moved_at_two_points")
        if any(v > 1 for v in PLAN["attempts"].values()):
            res.count("retries_observed")
        for kname, v in PLAN["kinds"].items():
            res.count("fired_" + kname, v)
        if PLAN.get("ident_reused"):
            res.count("decoy_reused_ident")
        iw = ctxmon.insp_warnings(w)
        if iw:
            res.count("rejections_observed")
        problems = list(snapshot_problems)
        del snapshot_problems[:]
        if raised is not None:
            problems.append("extract raised %r" % (raised,))
        else:
            if s.error is not None:
                res.count("results_with_error")
            for fr in s.frames:
                co = fr.pyframe.f_code
                if co not in tgt.codes and co not in boot and co is not Target.gate.__code__ \
                        and co is not Target._body.__code__ and co is not script.__code__ \
                        and co.co_filename != threading.__file__:
                    problems.append("reported frame %s does not belong to the target thread" % co.co_name)
                    continue
                if co not in tgt.codes:
                    continue   # threading internals (Semaphore.acquire has a real `with self._cond`)
                if not fr.contexts and not iw:
                    continue
                # per-frame consistency: contexts equal the shadow fold of that frame at ONE position in range
                got = [(c.obj, c.is_exiting) for c in fr.contexts]
                ok = False
                # What the low-level snapshot (value stack + handler chain) determines is the list of
                # entered, non-exiting managers; the *exiting* entry is derived afterwards from a fresh
                # read of f_lasti and from the next frame of a frame list walked at another moment, so
                # when the target moved it is not part of this frame's snapshot and is not judged here.
                got_ne = [a[0] for a in got if not a[1]]
                for pos in range(p_before, p_after + 1):
                    want = tgt.truth.get(pos, {}).get(id(fr.pyframe), [])
                    want_ne = [b[0] for b in want if not b[1]]
                    if len(want_ne) == len(got_ne) and all(a is b for a, b in zip(got_ne, want_ne)):
                        ok = True
                        break
                if not ok and not iw:
                    problems.append("frame %s: contexts %r match no single position in [%d, %d]: %r" % (
                        fr.funcname, [(repr(a), b) for a, b in got], p_before, p_after,
                        [[(repr(a), b) for a, b in tgt.truth.get(pos, {}).get(id(fr.pyframe), [])]
                         for pos in range(p_before, p_after + 1)][:4]))
                if not PLAN["moved"] and not iw:
                    want = tgt.truth.get(p_before, {}).get(id(fr.pyframe), [])
                    if len(want) != len(got) or any(a[0] is not b[0] or a[1] != b[1] for a, b in zip(got, want)):
                        problems.append("target did not move, yet contexts of %s are not exact" % fr.funcname)
        tgt.finish()
        for d, ev in decoys:
            ev.set()
            d.join(5)
        del decoys[:]
        if problems:
            res.violation(kind="racing snapshot", script=spec["script"], park=park, fire_at=fire_at, j=j, every=every,
                          decoy=decoy, second=second, problems=problems[:3], interp=interp)
        return PLAN["fired"]

    cases = []
    for park in range(1, ngates):
        cases.append((park, None, 0, False, False))
        for fire_at in range(1, spec["max_fire"] + 1):
            for j in (1, 2, 3, 6, ngates + 5):
                cases.append((park, fire_at, j, False, False))
            cases.append((park, fire_at, ngates + 5, False, True))
        cases.append((park, None, 1, True, False))
        cases.append((park, None, 2, True, False))
        # the target moves at two different hook points (away, and on - possibly back to where it was)
        for fire_at in range(1, spec["max_fire"] + 1):
            for gap in (1, 2, 3):
                for j1, j2 in ((1, 1), (1, 2), (2, 1), (2, 2), (1, 3), (3, 1)):
                    cases.append((park, fire_at, j1, False, False, (fire_at + gap, j2)))
    cases = [c for i, c in enumerate(cases) if i % spec["parts"] == spec["part"]]
    for c in cases:
        if budget.over():
            res.count("budget_cut")
            break
        run_case(*c)
    res.count("inspect_frame_snapshots_checked", snap_counter["checked"])
    res.count("inspect_frame_snapshots_of_executing_frames", snap_counter["executing"])
    res.count("inspect_frame_snapshots_frame_gone_not_judged", snap_counter["frame_gone"])
    res.sample({"leg": "schedules", "script": spec["script"], "gates": ngates, "cases": len(cases)})
    return res


# ---------------------------------------------------------------------------------------------
def stress_leg(spec, res):
    import collections
    import threading
    import time
    import warnings
    import io
    from vlib import ctxmon
    import stackscope

    interp = "%d.%d" % sys.version_info[:2]
    # before 3.11 the frame reader has no consistency re-check at all (known finding F10): whatever a racing
    # read produces there - crash, exception, torn snapshot - is that one mechanism
    f10 = {"mechanism": "py310-racing-reader"} if sys.version_info < (3, 11) else {}
    stop = threading.Event()
    LINE_TAG = {}

    class T(object):
        def __init__(s, tag):
            s.tag = tag

        def __enter__(s):
            return s

        def __exit__(s, *e):
            return False

    codes = set()

    def gen(n):
        with T("g1"):
            for i in range(n):
                yield i
        with T("g2") as z:  # noqa
            yield -1

    def leaf(n):
        with T("l1") as a:  # noqa
            with T("l2"):
                x = [i for i in range(3)]
        return n + len(x)

    def mid(n):
        with T("m1"), T("m2") as b:  # noqa
            for v in gen(3):
                leaf(v)
        try:
            with T("m3"):
                return leaf(n)
        finally:
            with T("m4"):
                pass

    def top():
        while not stop.is_set():
            with T("t1") as t1:  # noqa
                mid(1)
            mid(2)

    for f in (gen, leaf, mid, top):
        codes.add(f.__code__)
    # tag of the with statement on each line (from the source of this very function)
    import inspect
    import re
    srclines, start = inspect.getsourcelines(stress_leg)
    for i, l in enumerate(srclines):
        tags = re.findall(r'T\("(\w+)"\)', l)
        if tags and l.strip().startswith("with"):
            LINE_TAG[start + i] = tags
    boot = {getattr(threading.Thread, n).__code__ for n in ("run", "_bootstrap", "_bootstrap_inner")
            if hasattr(threading.Thread, n)}
    th = threading.Thread(target=top, daemon=True)
    sys.setswitchinterval(1e-6)
    th.start()
    positions = set()
    t_end = time.time() + spec["seconds"]
    n = 0
    old = sys.stderr
    sys.stderr = io.StringIO()
    try:
        while time.time() < t_end:
            n += 1
            raised = None
            with warnings.catch_warnings(record=True) as w:
                warnings.simplefilter("always")
                try:
                    s = stackscope.extract(th)
                except BaseException as e:  # noqa
                    raised = e
            res.evaluations += 1
            res.count("stress_extractions")
            if raised is not None:
                res.violation(kind="extract raised while racing", error=repr(raised), interp=interp, **f10)
                continue
            iw = ctxmon.insp_warnings(w)
            if iw:
                res.count("rejections_observed")
            if s.error is not None:
                res.count("results_with_error")
            for fr in s.frames:
                co = fr.pyframe.f_code
                if co not in codes and co not in boot and co.co_filename != threading.__file__ \
                        and co.co_name not in ("<listcomp>", "__enter__", "__exit__", "__init__"):
                    res.violation(kind="foreign frame reported while racing", frame=co.co_name, interp=interp)
                positions.add((co.co_name, fr.pyframe.f_lasti))
                if iw:
                    continue
                for c in fr.contexts:
                    if c.is_exiting or c.obj is None or c.start_line is None:
                        continue
                    tags = LINE_TAG.get(c.start_line)
                    if tags is not None and getattr(c.obj, "tag", None) not in tags:
                        res.violation(kind="torn snapshot: context object does not belong to the with on its line",
                                      line=c.start_line, tag=getattr(c.obj, "tag", repr(c.obj)), expected=tags,
                                      frame=fr.funcname, interp=interp, **f10)
                    elif tags is not None:
                        res.count("stress_contexts_tag_checked")
    finally:
        sys.stderr = old
        stop.set()
        th.join(30)
        sys.setswitchinterval(0.005)
    res.count("stress_distinct_positions", len(positions))
    for p in sorted(positions)[:200]:
        res.nontrivial(interp, "stress-pos", p)
    if spec.get("tag"):
        res.count("shards_" + spec["tag"].replace("-", "_"))
    res.sample({"leg": "stress", "extractions": n, "distinct_positions": len(positions), "tag": spec.get("tag")})
    return res


def extra_coverage(statuses):
    import glob
    import os
    import re
    from vlib import orch
    out = {}
    logs = glob.glob(os.path.join(orch.WORK, "C07", "valgrind.*.log"))
    if logs:
        blocks = attributed = 0
        for p in logs:
            with open(p, errors="replace") as f:
                text = f.read()
            for blk in re.split(r"\n==\d+== \n", text):
                if "Invalid read" in blk or "Invalid write" in blk:
                    blocks += 1
                    if "_ctypes" in blk:
                        attributed += 1
        out["valgrind_report_blocks"] = blocks
        out["valgrind_blocks_attributed_to_ctypes"] = attributed
    return out
