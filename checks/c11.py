"""C11 - context hooks: elaborate, unwrap, re-elaborate until a steady state.

Deciding method: executable reference model (the loop in the statement) compared with a log of
the real hook invocations; each log entry carries a snapshot of the Context at call time, so
replacement of obj and the reset of inner_stack/children before re-elaboration are observed
directly.  Hooks are registered once through the public API and read a per-case table.
"""
import sys

PROPERTY = "C11"
LEVEL = "exploration"
TECHNIQUE = "runtime monitoring against an executable reference model of the fill_context loop, with hook-call snapshots"
RULE = ("wrapper chains of length 1..7 over synthetic manager classes (three classes, one inheriting its hooks) and "
        "generator-based managers (sync and async, dispatch by generator code object through both lookup paths), "
        "unwrap hooks returning None / next manager / PRUNE / self / a 2-cycle, elaborate hooks setting description, "
        "children, inner_stack or nothing; exiting and non-exiting contexts; each case run through fill_context "
        "outside any extract and inside an elaborate_frame hook of a running extract. non-trivial = chain with >=1 "
        "successful unwrap step, a PRUNE or a cycle; distinct by (chain kinds, plan)")
ASSUMPTIONS = ["the hooks' own log is the observation channel; the model is the loop of the property statement"]
MIN_NONTRIVIAL = {"quick": 5000, "thorough": 100000}
REQUIRED_COUNTERS = {"cases_cycle": {"quick": 300, "thorough": 5000},
                     "falsy_managers_in_chains": {"quick": 2000, "thorough": 40000},
                     "cases_elaborate_substitutes_obj": {"quick": 1000, "thorough": 20000},
                     "cases_prune": {"quick": 500, "thorough": 5000},
                     "cases_gcm_exiting_path": {"quick": 300, "thorough": 5000},
                     "cases_gcm_inner_stack_path": {"quick": 300, "thorough": 5000},
                     "inside_extract_compared": {"quick": 3000, "thorough": 50000},
                     "hooks_delivered_by_late_module_glue": {"quick": 48, "thorough": 48},
                     "equal_code_not_dispatched": {"quick": 100, "thorough": 1000},
                     "late_registration_cases": {"quick": 80, "thorough": 80},
                     "hooks_that_extract_something_themselves": {"quick": 2000, "thorough": 40000}}
SHARD_TIMEOUT = {"quick": 400, "thorough": 5400}
INTERPS = ["3.12", "3.11", "3.10", "3.9"]


def plan(tier, seed):
    shards = []
    for interp in INTERPS:
        for s in range(4):
            shards.append({"interp": interp, "seed": seed * 100 + s, "cases": 4000 if tier == "quick" else 120000,
                           "budget_s": 40 if tier == "quick" else 1500})
    return shards


def worker(spec):
    import contextlib
    import random
    import warnings
    from vlib.worker import Result
    from vlib import ctxwork
    import stackscope
    from stackscope import (Context, Stack, fill_context, unwrap_context, elaborate_context,
                            unwrap_context_generator, PRUNE, elaborate_frame, extract_since, extract)

    res = Result()
    interp = "%d.%d" % sys.version_info[:2]
    budget = ctxwork.Budget(spec.get("budget_s", 60))
    rng = random.Random(spec["seed"])
    LOG = []
    PLAN = {}  # id(manager) -> dict(unwrap=..., elab=[...])

    class WA(object):
        def __init__(self, i):
            self.i = i
            # a manager may well be falsy (container-like resources: empty pool, empty shelf)
            self.falsy = rng.random() < 0.25
            if self.falsy:
                res.count("falsy_managers_in_chains")

        def __len__(self):
            return 0 if self.falsy else 1

        def __enter__(self):
            return self

        def __exit__(self, *e):
            pass

        def __repr__(self):
            return "%s%d" % (type(self).__name__, self.i)

    class WB(WA):  # inherits WA's hooks through singledispatch
        pass

    class WC(object):
        def __init__(self, i):
            self.i = i
            self.falsy = rng.random() < 0.25
            if self.falsy:
                res.count("falsy_managers_in_chains")

        def __bool__(self):
            return not self.falsy

        async def __aenter__(self):
            return self

        async def __aexit__(self, *e):
            pass

        def __repr__(self):
            return "WC%d" % self.i

    def snap(ctx, mgr):
        return (ctx.obj is mgr, ctx.inner_stack is None, tuple(ctx.children) == (), ctx.hide)

    def do_unwrap(mgr, ctx):
        LOG.append(("unwrap", id(mgr)) + snap(ctx, mgr))
        return PLAN.get(id(mgr), PLAN_DEFAULT)["unwrap"]

    def nested_look(mgr):
        # what the documentation of unwrap_context_generator suggests hooks do: extract something else from
        # inside the hook.  The extraction this hook runs in must carry on as if nothing had happened.
        opts = PLAN.get(id(mgr), PLAN_DEFAULT).get("nest")
        if opts is not None:
            res.count("hooks_that_extract_something_themselves")
            with warnings.catch_warnings():
                warnings.simplefilter("ignore")
                s_n = extract(NESTED_TARGET, with_contexts=opts[0], recurse_child_tasks=opts[1])
            if len(s_n.frames) != 1:
                res.violation(kind="fill_context differs from the model", case="nested extract from a hook",
                              problems=["nested extraction returned %d frames" % len(s_n.frames)], interp=interp)

    def do_elab(mgr, ctx):
        LOG.append(("elab", id(mgr)) + snap(ctx, mgr))
        nested_look(mgr)
        e = PLAN.get(id(mgr), PLAN_DEFAULT)["elab"]
        if "desc" in e:
            ctx.description = "d%d" % mgr.i
        if "children" in e:
            ctx.children = [Context(obj=None, is_async=False)]
        if "inner" in e:
            ctx.inner_stack = Stack(root=None, frames=[])
        tgt = PLAN.get(id(mgr), PLAN_DEFAULT).get("setobj")
        if tgt is not None:
            # like the built-in Trio nursery hook: the elaborate hook substitutes the manager itself;
            # unwrapping must then continue from the substituted object
            ctx.obj = tgt

    class PlainForNesting(object):
        def __enter__(self):
            return self

        def __exit__(self, *e):
            return False

    def _nested_target():
        with PlainForNesting():
            yield 0

    NESTED_TARGET = _nested_target()
    next(NESTED_TARGET)
    PLAN_DEFAULT = {"unwrap": None, "elab": ()}

    unwrap_context.register(WA)(do_unwrap)
    unwrap_context.register(WC)(do_unwrap)
    elaborate_context.register(WA)(do_elab)
    elaborate_context.register(WC)(do_elab)

    # generator-based managers: two functions compiled from the same source => equal code objects
    class InnerMgr(object):
        def __enter__(self):
            return self

        def __exit__(self, *e):
            return False

    INNER = InnerMgr()
    SRC = "def gcm(i):\n    with INNER:\n        yield i\n"
    ns1, ns2 = {"INNER": INNER}, {"INNER": INNER}
    exec(compile(SRC, "<gcm>", "exec"), ns1)
    exec(compile(SRC, "<gcm>", "exec"), ns2)
    assert ns1["gcm"].__code__ == ns2["gcm"].__code__ and ns1["gcm"].__code__ is not ns2["gcm"].__code__
    gcm_registered = contextlib.contextmanager(ns1["gcm"])
    gcm_equal_twin = contextlib.contextmanager(ns2["gcm"])
    ASRC = "async def agcm(i):\n    with INNER:\n        yield i\n"
    ns3 = {"INNER": INNER}
    exec(compile(ASRC, "<agcm>", "exec"), ns3)
    agcm_registered = contextlib.asynccontextmanager(ns3["agcm"])

    def gen_hook(frame, ctx):
        mgr = ctx.obj
        own = frame.pyframe is (getattr(mgr.gen, "gi_frame", None) or getattr(mgr.gen, "ag_frame", None))
        # hooks commonly find the wrapped manager through frame.contexts (stackscope's own
        # pytest-trio glue does): the frame must carry the generator's contexts on *both* lookup
        # paths (inner_stack present, and exiting)
        sees_contexts = [c.obj for c in frame.contexts] == [INNER]
        LOG.append(("unwrap", id(mgr)) + snap(ctx, mgr) + (own and sees_contexts,))
        return PLAN[id(mgr)]["unwrap"]

    unwrap_context_generator.register(ns1["gcm"])(gen_hook)
    unwrap_context_generator.register(ns3["agcm"])(gen_hook)

    def make_manager(kind, i):
        if kind == "WA":
            return WA(i)
        if kind == "WB":
            return WB(i)
        if kind == "WC":
            return WC(i)
        if kind == "gcm":
            m = gcm_registered(i)
            m.i = i
            m.__enter__()
            return m
        if kind == "gcm_twin":
            m = gcm_equal_twin(i)
            m.i = i
            m.__enter__()
            return m
        if kind == "agcm":
            m = agcm_registered(i)
            m.i = i
            try:
                m.__aenter__().send(None)
            except StopIteration:
                pass
            return m
        raise AssertionError(kind)

    def is_gcm(m):
        return hasattr(m, "gen")

    model_state = {}

    def model(first, exiting):
        """the loop of the statement; returns (expected (event, id) log, outcome, final manager)"""
        log = []
        obj = first
        for _ in range(100):
            kind = PLAN[id(obj)]["kind"]
            log.append(("elab", id(obj)))
            model_state["last_elab"] = obj
            if PLAN[id(obj)].get("setobj") is not None and not is_gcm(obj):
                obj = PLAN[id(obj)]["setobj"]      # context.obj was substituted by the elaborate hook
                kind = PLAN[id(obj)]["kind"]
            if kind == "gcm_twin":
                # equal-but-not-identical code object: no hook is dispatched, unwrapping stops
                return log, "stop", obj
            log.append(("unwrap", id(obj)))
            r = PLAN[id(obj)]["unwrap"]
            if r is None:
                return log, "stop", obj
            if r == PRUNE:
                return log, "hide", obj
            obj = r
        log.append(("elab", id(obj)))
        log.append(("unwrap", id(obj)))
        return log, "error", None

    def run_fill(first, exiting, is_async):
        del LOG[:]
        ctx = Context(obj=first, is_async=is_async, is_exiting=exiting)
        err = None
        try:
            with warnings.catch_warnings():
                warnings.simplefilter("ignore")
                fill_context(ctx)
        except RuntimeError as ex:
            err = ex
        return ctx, err, list(LOG)

    # carrier: fill_context called from inside an elaborate_frame hook of a running extract
    inside = {}

    def carrier():
        return extract_since(sys._getframe(0))

    @elaborate_frame.register(carrier)
    def _carrier_hook(frame, nxt):
        first, exiting, is_async = inside["args"]
        inside["result"] = run_fill(first, exiting, is_async)
        return None

    kinds_all = ["WA", "WB", "WC", "gcm", "agcm", "WA", "WC"]
    for case in range(spec["cases"]):
        if budget.over():
            res.count("budget_cut")
            break
        res.evaluations += 1
        L = rng.randint(1, 7)
        kinds = [rng.choice(kinds_all) for _ in range(L)]
        if rng.random() < 0.08:
            kinds[rng.randrange(L)] = "gcm_twin"
        ms = [make_manager(k, i) for i, k in enumerate(kinds)]
        PLAN.clear()
        cyc = None
        for k, m in enumerate(ms):
            last = k == L - 1
            if last or rng.random() < 0.15:
                u = rng.choice([None, None, PRUNE, "self", "cycle2"])
                if u == "self":
                    u = m
                elif u == "cycle2":
                    u = ms[max(0, k - 1)]
                    if kinds[max(0, k - 1)] == "gcm_twin":
                        u = None
            else:
                u = ms[k + 1]
            PLAN[id(m)] = dict(kind=kinds[k], unwrap=u,
                               elab=rng.sample(["desc", "children", "inner"], rng.randint(0, 3)),
                               nest=(rng.random() < 0.5, rng.random() < 0.5) if rng.random() < 0.3 else None)
        # some elaborate hooks substitute context.obj by a manager of another dispatch type
        for k, m in enumerate(list(ms)):
            if not is_gcm(m) and rng.random() < 0.12:
                other_kind = "WC" if kinds[k] in ("WA", "WB") else "WA"
                sub = make_manager(other_kind, 100 + k)
                ms.append(sub)
                kinds.append(other_kind)
                PLAN[id(sub)] = dict(kind=other_kind, unwrap=rng.choice([None, PRUNE, PLAN[id(m)]["unwrap"]]),
                                     elab=rng.sample(["desc", "children", "inner"], rng.randint(0, 2)))
                if PLAN[id(sub)]["unwrap"] is sub:
                    PLAN[id(sub)]["unwrap"] = None
                PLAN[id(m)]["setobj"] = sub
                res.count("cases_elaborate_substitutes_obj")
        exiting = rng.random() < 0.35
        first = ms[0]
        is_async = kinds[0] in ("WC", "agcm")
        ctx, err, log = run_fill(first, exiting, is_async)
        elog, outcome, final = model(first, exiting)
        got = [(x[0], x[1]) for x in log]
        probs = []
        desc = "kinds=%r plan=%r exiting=%r" % (
            kinds, [(repr(PLAN[id(m)]["unwrap"]) if not isinstance(PLAN[id(m)]["unwrap"], tuple) else "PRUNE",
                     PLAN[id(m)]["elab"]) for m in ms], exiting)
        if outcome == "error":
            res.count("cases_cycle")
            if err is None:
                probs.append("no error although unwrapping never reaches a steady state")
            nun = len([x for x in log if x[0] == "unwrap"])
            if nun > 101:
                probs.append("%d unwrap calls (> 101)" % nun)
        else:
            if err is not None:
                probs.append("unexpected error %r" % (err,))
            # elaborate_context for generator-based managers is the built-in glue (not logged):
            want = [e for e in elog if not (e[0] == "elab" and is_gcm_id(ms, e[1]))]
            if got != want:
                probs.append("hook call sequence differs: got %r expected %r" % (
                    [(a, name_of(ms, b)) for a, b in got], [(a, name_of(ms, b)) for a, b in want]))
            if ctx.obj is not final:
                probs.append("final obj is %r, expected %r" % (ctx.obj, final))
            if ctx.hide != (outcome == "hide"):
                probs.append("hide=%r for outcome %s" % (ctx.hide, outcome))
            for j, x in enumerate(log):
                if not x[2]:
                    probs.append("call %d (%s): context.obj was not the manager being processed" % (j, x[0]))
                # the first hook call for a manager that was reached by unwrapping must see reset state
                first_for_mgr = all(y[1] != x[1] for y in log[:j])
                if first_for_mgr and x[1] != id(first) and x[0] == "elab" and not (x[3] and x[4]):
                    probs.append("call %d: inner_stack/children not reset before re-elaboration" % j)
                if len(x) > 6 and not x[6]:
                    probs.append("call %d: generator hook did not receive the generator's own frame with its contexts" % j)
            last = model_state.get("last_elab")
            if final is not None and last is not None and not is_gcm(last):
                # description/children are those set by the hook that elaborated last (if an elaborate
                # hook substituted context.obj, the substitute itself is not re-elaborated)
                e = PLAN[id(last)]["elab"]
                final_i = last.i
                if ("desc" in e) != (ctx.description == "d%d" % final_i):
                    probs.append("description of the final manager not in effect")
                if ("children" in e) != (len(ctx.children) == 1):
                    probs.append("children of the final manager not in effect")
            if final is not None and is_gcm(final):
                if exiting and first is final and ctx.inner_stack is not None:
                    probs.append("inner_stack extracted although exiting")
                if (not exiting or first is not final) and not (ctx.is_exiting and first is final):
                    want_frame = getattr(final.gen, "gi_frame", None) or getattr(final.gen, "ag_frame", None)
                    if ctx.inner_stack is None or not ctx.inner_stack.frames or \
                            ctx.inner_stack.frames[0].pyframe is not want_frame:
                        if not ctx.is_exiting:
                            probs.append("inner_stack of generator-based manager missing/wrong")
        if outcome == "hide":
            res.count("cases_prune")
        if any(k in ("gcm", "agcm") for k in kinds):
            res.count("cases_gcm_exiting_path" if exiting and kinds[0] in ("gcm", "agcm") else "cases_gcm_inner_stack_path")
        if "gcm_twin" in kinds and any(e[1] == id(m) for e in elog for m in ms if PLAN[id(m)]["kind"] == "gcm_twin"):
            res.count("equal_code_not_dispatched")
        # same result inside an extract
        inside["args"] = (first, exiting, is_async)
        inside.pop("result", None)
        carrier()
        if "result" in inside:
            ctx2, err2, log2 = inside["result"]
            res.count("inside_extract_compared")
            if (err is None) != (err2 is None):
                probs.append("error only %s an extract" % ("outside" if err else "inside"))
            elif err is None and not (ctx == ctx2):
                probs.append("fill_context result differs inside an extract: %r vs %r" % (ctx, ctx2))
            elif [(a[0], a[1]) for a in log2] != got:
                probs.append("hook call sequence differs inside an extract")
        else:
            probs.append("carrier hook did not run")
        if outcome != "stop" or len(elog) > 2:
            res.nontrivial(desc)
        if probs:
            res.violation(kind="fill_context differs from the model", case=desc, problems=probs[:4], interp=interp)
        if len(res.samples) < 2 and L >= 3:
            res.sample({"case": desc, "outcome": outcome, "hook_calls": len(log)})
        for m in ms:
            if is_gcm(m):
                try:
                    m.gen.close() if hasattr(m.gen, "close") else m.gen.aclose().send(None)
                except BaseException:
                    pass

    # hooks registered *after* a manager type has been through fill_context once (a debugging session: look at a
    # stack, register a hook to see through a wrapper, look again; a library that registers its hooks lazily)
    for rep in range(40):
        def holder(m):
            with m:
                yield 1

        for where in ("outside", "inside"):
            class Inner(object):
                def __enter__(self):
                    return self

                def __exit__(self, *e):
                    return False

            class Late(Inner):
                def __init__(self):
                    self.inner = Inner()

            m = Late()
            h = holder(m)
            next(h)

            def filled():
                if where == "outside":
                    c = Context(obj=m, is_async=False)
                    fill_context(c)
                    return c
                return extract(h).frames[0].contexts[0]

            res.evaluations += 1
            res.count("late_registration_cases")
            res.nontrivial("late-registration", rep, where)
            c0 = filled()
            if c0.obj is not m or c0.description is not None:
                res.violation(kind="fill_context differs from the model", case="late registration (%s): before" % where,
                              problems=["a manager without hooks was changed: %r" % (c0,)], interp=interp)
            if True:
                seen = []

                @elaborate_context.register(Late)
                def _late_elab(mgr, ctx):
                    seen.append("elaborate")
                    ctx.description = "late"

                @unwrap_context.register(Late)
                def _late_unwrap(mgr, ctx):
                    seen.append("unwrap")
                    return mgr.inner

                c1 = filled()
                if c1.obj is not m.inner or seen[:2] != ["elaborate", "unwrap"]:
                    res.violation(kind="fill_context differs from the model", case="late registration (%s): after" % where,
                                  problems=["hooks registered after the type was first seen are not applied: obj=%s, "
                                            "hook calls %r" % (type(c1.obj).__name__, seen)], interp=interp)
            h.close()

    # hooks that arrive through a module's own glue function: the module was imported after the last extraction,
    # and the first thing that looks at one of its managers is fill_context - outside an extract, or inside one
    import types as _types
    for rep in range(24):
        for where in ("outside", "inside"):
            class GlueMgr(object):
                def __enter__(self):
                    return self

                def __exit__(self, *e):
                    return False

            name = "vv_c11_latemod_%s_%d" % (where, rep)
            mod = _types.ModuleType(name)
            ran = []

            def install(GlueMgr=GlueMgr, ran=ran):
                ran.append(1)

                @elaborate_context.register(GlueMgr)
                def _glue_elab(mgr, ctx):
                    ctx.description = "from module glue"

            mod._stackscope_install_glue_ = install
            extract(0)                    # everything that was there before is settled
            sys.modules[name] = mod       # "import"
            m = GlueMgr()
            try:
                res.evaluations += 1
                res.count("hooks_delivered_by_late_module_glue")
                res.nontrivial("late-module-glue", rep, where)
                if where == "outside":
                    c = Context(obj=m, is_async=False)
                    fill_context(c)
                else:
                    def holder2(m):
                        with m:
                            yield 1
                    h2 = holder2(m)
                    next(h2)
                    c = extract(h2).frames[0].contexts[0]
                    h2.close()
                if c.description != "from module glue" or ran != [1]:
                    res.violation(kind="fill_context differs from the model",
                                  case="hooks delivered by the glue of a module imported since the last extraction (%s)" % where,
                                  problems=["description %r, module glue ran %d times: fill_context %s an extract does not see "
                                            "the module's hooks" % (c.description, len(ran), where)], interp=interp)
            finally:
                sys.modules.pop(name, None)
    return res


def is_gcm_id(ms, ident):
    for m in ms:
        if id(m) == ident:
            return hasattr(m, "gen")
    return False


def name_of(ms, ident):
    for m in ms:
        if id(m) == ident:
            return repr(m)[:30]
    return "?"
