"""C18 - tree formatting is well-formed; reading it back recovers the Stack's structure.

Deciding method: a reader written from the documented prefix scheme reconstructs the nesting
from the Unicode text alone; its output must be isomorphic to the Stack object projected under
the same options.  The ASCII form is checked as the Unicode text under the fixed marker
substitution; the remaining clauses (str == join(format), one newline per line, hidden iff
show_hidden_frames, show_contexts=False = frame series) are checked on every render.
"""
import sys

PROPERTY = "C18"
LEVEL = "exploration"
TECHNIQUE = "runtime monitoring: read-back parser of the documented prefix scheme compared with the object tree"
RULE = ("random Stack/Frame/Context trees (depth/width <= N) built directly from the dataclasses over real parked frames: "
        "contexts exiting or not, with/without start_line, description, varname, obj; inner stacks (also empty), child "
        "contexts, child task stacks (stub or populated, with or without root), hidden flags, leaf, error (single and "
        "group); all 8 option sets. non-trivial = render whose tree has >= 1 context with substructure; distinct by "
        "(tree serial, options). Marker-like content and multi-line reprs form a separately counted class")
ASSUMPTIONS = [
    "three things the text provably does not encode are quotiented out: an empty inner stack prints nothing; child "
    "contexts with inner stacks and child task stacks print alike when mixed; blank separator lines carry no structure",
    "content from a safe alphabet for the read-back; hostile content is only required not to raise",
]
MIN_NONTRIVIAL = {"quick": 5000, "thorough": 100000}
REQUIRED_COUNTERS = {"renders": {"quick": 20000, "thorough": 400000},
                     "ascii_mapped_equal": {"quick": 10000, "thorough": 200000},
                     "hidden_checks": {"quick": 5000, "thorough": 100000},
                     "frames_only_checks": {"quick": 5000, "thorough": 100000}}
SHARD_TIMEOUT = {"quick": 400, "thorough": 5400}
INTERPS = ["3.12", "3.11", "3.10", "3.9"]

MARKMAP = {"╠ ": "+ ", "║ ": "| ", "╚ ": "+ ", "├ ": ". ", "│ ": "  ", "├─": "  ",
           "─ ": ". ", "└ ": "` ", "  ": "  "}


def plan(tier, seed):
    shards = []
    for interp in INTERPS:
        for s in range(4):
            shards.append({"interp": interp, "seed": seed * 100 + s, "trees": 6000 if tier == "quick" else 150000,
                           "max_depth": 3 if tier == "quick" else 5, "width": 3 if tier == "quick" else 5,
                           "budget_s": 40 if tier == "quick" else 1500, "hostile": False})
        shards.append({"interp": interp, "seed": seed * 100 + 9, "trees": 300 if tier == "quick" else 10000,
                       "max_depth": 3, "width": 3, "budget_s": 30 if tier == "quick" else 600, "hostile": True})
    return shards


class ParseError(Exception):
    pass


def read_stack(lines, header=True):
    i = 0
    if header:
        if not lines or not lines[0].startswith("stackscope.Stack"):
            raise ParseError("no header %r" % lines[:1])
        i = 1
    frames = []
    leaf = False
    err = False
    cur = None
    while i < len(lines):
        ln = lines[i]
        if ln.startswith("╠ "):
            if leaf or err:
                raise ParseError("frame after leaf/error")
            cur = [ln[2:]]
            frames.append(cur)
        elif ln.startswith("║ "):
            if cur is None or leaf or err:
                raise ParseError("continuation without frame")
            cur.append(ln[2:])
        elif ln.startswith("╚ "):
            if leaf or err:
                raise ParseError("two leaves")
            leaf = True
            cur = None
        elif ln.startswith("  Error while extracting stack:"):
            err = True
            cur = None
        elif err and ln.startswith("  "):
            pass
        elif ln.strip() == "":
            pass
        else:
            raise ParseError("unexpected line %r" % ln)
        i += 1
    return ("S", [read_frame(f) for f in frames], leaf, err)


def read_frame(lines):
    head = lines[0]
    if " in " not in head or " at " not in head:
        raise ParseError("bad frame head %r" % head)
    ctxs = []
    cur = None
    code = False
    for ln in lines[1:]:
        if ln.startswith("├ "):
            if code:
                raise ParseError("context after code line")
            cur = [ln[2:]]
            ctxs.append(cur)
        elif ln.startswith("├─"):
            if cur is None:
                raise ParseError("child without context")
            # the connector belongs on the first line of a *direct* child of the context, and only there
            if not ln[2:].startswith("─ "):
                raise ParseError("connector on a line that does not start a direct child: %r" % ln)
            cur.append(ln[2:])
        elif ln.startswith("│ "):
            if cur is None:
                raise ParseError("continuation without context")
            if ln[2:].startswith("─ "):
                raise ParseError("direct child without its connector: %r" % ln)
            cur.append(ln[2:])
        elif ln.startswith("└ "):
            if code:
                raise ParseError("two code lines")
            code = True
        else:
            raise ParseError("unexpected frame line %r" % ln)
    return ("F", [read_ctx(c) for c in ctxs], code)


def read_ctx(lines):
    inner = []
    kids = []
    cur = None
    for ln in lines[1:]:
        if ln.startswith("─ "):
            cur = [ln[2:]]
            kids.append(cur)
        elif cur is not None:
            if ln.strip() == "":
                continue
            if not ln.startswith("  "):
                raise ParseError("bad child continuation %r" % ln)
            cur.append(ln[2:])
        else:
            if ln.strip() == "":
                continue
            inner.append(ln)
    inner_p = read_stack(inner, header=False) if inner else None
    return ("C", inner_p, [read_ctx(k) for k in kids])


def normalise(t):
    if t is None:
        return None
    if t[0] == "S":
        return ("S", [normalise(f) for f in t[1]], t[2], t[3])
    if t[0] == "F":
        return ("F", [normalise(c) for c in t[1]])
    if t[0] == "CS":
        inner = normalise(("S", t[1], t[2], t[3]))
        if inner == ("S", [], False, False):
            inner = None
        return ("C", inner, [])
    if t[0] == "C":
        inner = normalise(t[1])
        if inner == ("S", [], False, False):
            inner = None
        return ("C", inner, [normalise(k) for k in t[2]])


def worker(spec):
    import itertools
    import random
    from vlib.worker import Result
    from vlib import ctxwork, fmttrees
    import stackscope
    from stackscope import Context

    res = Result()
    interp = "%d.%d" % sys.version_info[:2]
    budget = ctxwork.Budget(spec.get("budget_s", 60))
    rng = random.Random(spec["seed"])
    T = fmttrees.Trees(rng, spec["max_depth"], spec["width"], hostile=spec["hostile"])

    def proj_stack(st, o):
        frames = [proj_frame(f, o) for f in st.frames if not f.hide or o["hidden"]]
        return ("S", frames, st.leaf is not None, st.error is not None)

    def proj_frame(f, o):
        ctxs = []
        if o["ctx"]:
            ctxs = [proj_ctx(c, o) for c in f.contexts if not c.hide or o["hidden"]]
        return ("F", ctxs)

    def proj_ctx(c, o):
        inner = proj_stack(c.inner_stack, o) if c.inner_stack is not None else None
        kids = []
        for ch in c.children:
            if isinstance(ch, Context):
                if ch.hide and not o["hidden"]:
                    continue
                kids.append(proj_ctx(ch, o))
            else:
                kids.append(("CS",) + proj_stack(ch, o)[1:])
        return ("C", inner, kids)

    def has_substructure(st):
        return any(c.inner_stack is not None or c.children for f in st.frames for c in f.contexts)

    def map_ascii(line):
        out = []
        i = 0
        while i + 2 <= len(line) and line[i:i + 2] in MARKMAP:
            out.append(MARKMAP[line[i:i + 2]])
            i += 2
        return "".join(out) + line[i:]

    def count_visible(st, o, kind):
        """number of frame head lines / context lines expected anywhere in the render"""
        n = 0
        for f in st.frames:
            if f.hide and not o["hidden"]:
                continue
            if kind == "frames":
                n += 1
            if o["ctx"]:
                for c in f.contexts:
                    n += count_ctx(c, o, kind)
        return n

    def count_ctx(c, o, kind):
        if c.hide and not o["hidden"]:
            return 0
        n = 1 if kind == "contexts" else 0
        if c.inner_stack is not None:
            n += count_visible(c.inner_stack, o, kind)
        for ch in c.children:
            if isinstance(ch, Context):
                n += count_ctx(ch, o, kind)
            else:
                n += count_visible(ch, o, kind)
        return n

    for case in range(spec["trees"]):
        if budget.over():
            res.count("budget_cut")
            break
        T.has_multiline = False
        T.has_nonascii = False
        st = T.stack(0)
        if not st.frames:
            res.count("frameless_toplevel_stacks")
            if st.leaf is not None:
                res.count("frameless_toplevel_stacks_with_leaf")
        for asc, ctx, hid in itertools.product((False, True), (True, False), (True, False)):
            o = dict(ctx=ctx, hidden=hid)
            res.evaluations += 1
            res.count("renders")
            probs = []
            try:
                lines = st.format(ascii_only=asc, show_contexts=ctx, show_hidden_frames=hid)
            except Exception as ex:
                res.violation(kind="format raised", error=repr(ex), interp=interp)
                continue
            if spec["hostile"]:
                res.count("hostile_renders")
                if T.has_multiline:
                    res.count("multiline_repr_renders_counted_not_judged")
                continue
            if any(not l.endswith("\n") or "\n" in l[:-1] for l in lines):
                probs.append("a line is not a single newline-terminated line")
            if not asc and ctx and not hid:
                if str(st) != "".join(lines):
                    probs.append("str(x) != ''.join(x.format())")
            if asc:
                uni = st.format(ascii_only=False, show_contexts=ctx, show_hidden_frames=hid)
                mapped = [map_ascii(l) for l in uni]
                res.count("ascii_mapped_equal")
                if mapped != lines:
                    bad = [(a, b) for a, b in zip(mapped, lines) if a != b][:2]
                    probs.append("ascii output is not the unicode output under the marker substitution: %r" % (bad,))
                if not T.has_nonascii:   # "pure ASCII when names, source and reprs are ASCII"
                    try:
                        "".join(lines).encode("ascii")
                    except UnicodeEncodeError:
                        probs.append("ascii_only output is not pure ASCII")
                else:
                    res.count("renders_with_nonascii_content")
            else:
                try:
                    got = normalise(read_stack([l[:-1] for l in lines]))
                    exp = normalise(proj_stack(st, o))
                    if got != exp:
                        probs.append("structure read back from the text differs from the object")
                    # frame head lines / code lines: exact counts
                    heads = sum(1 for l in lines if " in fmtmod at " in l)
                    res.count("hidden_checks")
                    if heads != count_visible(st, o, "frames"):
                        probs.append("number of frame lines %d != visible frames %d (hidden iff show_hidden_frames)" % (
                            heads, count_visible(st, o, "frames")))
                    if not ctx:
                        res.count("frames_only_checks")
                        if any(l[2:4] in ("├ ", "│ ", "├─") for l in lines):
                            probs.append("show_contexts=False printed context lines")
                        body = [l for l in lines if l.startswith("╠ ")]
                        if len(body) != len([f for f in st.frames if not f.hide or hid]):
                            probs.append("show_contexts=False: %d frame entries, expected %d" % (
                                len(body), len([f for f in st.frames if not f.hide or hid])))
                        if any(l.startswith("║ ") and not l.startswith("║ └ ") for l in lines):
                            probs.append("show_contexts=False printed something other than frame and code lines")
                except ParseError as e:
                    probs.append("text does not parse under the documented prefix scheme: %s" % e)
            if st.error is not None:
                # the error block of the top-level stack, line by line: heading, then every physical line of the
                # standard rendering of the exception under the two-space prefix (blank ones included)
                import traceback as _tb
                exp_err = ["  Error while extracting stack:\n"]
                for chunk in _tb.format_exception(type(st.error), st.error, st.error.__traceback__):
                    if chunk != "Traceback (most recent call last):\n":
                        exp_err.extend("  " + sub for sub in chunk.splitlines(True))
                res.count("toplevel_error_blocks_compared")
                if lines[-len(exp_err):] != exp_err:
                    n = 0
                    tail = lines[-len(exp_err):]
                    while n < min(len(tail), len(exp_err)) and tail[n] == exp_err[n]:
                        n += 1
                    probs.append("error block differs from the indented standard rendering at its line %d: %r vs %r" % (
                        n, tail[n:n + 1], exp_err[n:n + 1]))
            if has_substructure(st):
                res.nontrivial(interp, spec["seed"], case, asc, ctx, hid)
            if probs:
                res.violation(kind="format", options=dict(ascii_only=asc, show_contexts=ctx, show_hidden_frames=hid),
                              problems=probs[:3], text="".join(lines)[:1500], interp=interp)
        if len(res.samples) < 1 and has_substructure(st):
            res.sample({"text": "".join(st.format())[:1200]})
    return res
