"""C14 - Trio: the extracted tree is isomorphic to the real task tree, across thread hops.

Deciding method: Trio's own bookkeeping as the oracle.  Random task trees are started under
trio.run; after wait_all_tasks_blocked() a driver extracts the root task with
recurse_child_tasks=True and compares recursively with task.child_nurseries /
nursery.child_tasks (identity); to_thread/from_thread ping-pong chains are compared with a
shadow call log of the user functions.
"""
import sys

PROPERTY = "C14"
LEVEL = "exploration"
TECHNIQUE = "runtime monitoring: Trio's task.child_nurseries / nursery.child_tasks as oracle; shadow call log for thread hops"
RULE = ("random task trees (depth/fan-out <= N): each task opens 0..2 nested nurseries, optionally inside an "
        "@asynccontextmanager, and blocks in the innermost body or in a nursery's __aexit__; nursery bodies end in a plain "
        "statement / try-except / try-finally / conditional return; extracted with recurse_child_tasks True and False. "
        "to_thread/from_thread ping-pong chains of depth 0..M. non-trivial = tree with >= 2 nurseries or chain depth >= "
        "1; distinct by (tree text) / depth")
ASSUMPTIONS = ["CPython 3.12 only (Trio with its dependencies is installed for that interpreter only)"]
MIN_NONTRIVIAL = {"quick": 300, "thorough": 6000}
REQUIRED_COUNTERS = {"tasks_compared": {"quick": 2000, "thorough": 40000},
                     "nurseries_compared": {"quick": 1500, "thorough": 30000},
                     "tasks_blocked_in_aexit": {"quick": 200, "thorough": 4000},
                     "nurseries_inside_acm": {"quick": 150, "thorough": 3000},
                     "stub_children_checked": {"quick": 500, "thorough": 10000},
                     "pingpong_chains": {"quick": 8, "thorough": 24},
                     "two_run_cases": {"quick": 2, "thorough": 4},
                     "same_thread_name_cases": {"quick": 2, "thorough": 4},
                     "pingpong_falsy_callable": {"quick": 4, "thorough": 12},
                     "pingpong_abandon_on_cancel": {"quick": 4, "thorough": 12},
                     "pingpong_abandon_mixed": {"quick": 4, "thorough": 12},
                     "deep_task_cases": {"quick": 2, "thorough": 2},
                     "first_use_cases": {"quick": 7, "thorough": 7}}
SHARD_TIMEOUT = {"quick": 400, "thorough": 5400}


def plan(tier, seed):
    shards = []
    for s in range(8):
        shards.append({"interp": "3.12", "leg": "trees", "seed": seed * 100 + s, "n": 500 if tier == "quick" else 8000,
                       "depth": 3 if tier == "quick" else 4, "fan": 2 if tier == "quick" else 3,
                       "budget_s": 45 if tier == "quick" else 1500})
    shards.append({"interp": "3.12", "leg": "pingpong", "seed": seed, "max_depth": 4 if tier == "quick" else 7,
                   "reps": 4 if tier == "quick" else 8})
    for v in FIRST_USE_VARIANTS:
        shards.append({"interp": "3.12", "leg": "first_use", "variant": v, "seed": seed})
    return shards


FIRST_USE_VARIANTS = ["instrument_before_io_wait", "instrument_after_io_wait", "run_sync_soon", "worker_thread", "task",
                      "outside_run", "trio_imported_first"]


def first_use(spec):
    """History: *where* the process was when stackscope first met Trio (its Trio glue is installed once, at the first
    extraction after trio is importable - or at import time if trio came first).  Fresh process per variant; after
    that first look, a task tree with a nursery and a thread hop is judged against Trio's own bookkeeping."""
    import threading
    import warnings
    from vlib.worker import Result
    res = Result()
    interp = "%d.%d" % sys.version_info[:2]
    variant = spec["variant"]
    if "trio" in sys.modules or "stackscope" in sys.modules:
        res.inconclusive.append({"reason": "trio or stackscope already imported before the first-use leg started"})
        return res
    if variant == "trio_imported_first":
        import trio
        import stackscope
    else:
        import stackscope
        import trio
    import trio.testing
    import trio.lowlevel
    import trio.abc
    caught = []
    looked = []

    def first_look():
        if looked:
            return
        looked.append(variant)
        with warnings.catch_warnings(record=True) as w:
            warnings.simplefilter("always")
            stackscope.extract(0)
        caught.extend(w)

    class Inst(trio.abc.Instrument):
        def before_io_wait(self, timeout):
            if variant == "instrument_before_io_wait":
                first_look()

        def after_io_wait(self, timeout):
            if variant == "instrument_after_io_wait":
                first_look()

    release = threading.Event()
    entered = threading.Event()

    def blocker():
        entered.set()
        release.wait(20)

    async def sleeper():
        await trio.sleep_forever()

    async def root_task():
        async with trio.open_nursery() as nursery:
            nursery.start_soon(sleeper, name="kid-a")
            nursery.start_soon(sleeper, name="kid-b")
            await trio.sleep_forever()

    async def hop_task():
        await trio.to_thread.run_sync(blocker)

    problems = []

    async def main():
        if variant in ("instrument_before_io_wait", "instrument_after_io_wait"):
            await trio.sleep(0.05)      # the loop goes idle: the instrument fires with no task running
        elif variant == "run_sync_soon":
            trio.lowlevel.current_trio_token().run_sync_soon(first_look)
            await trio.sleep(0.05)
        elif variant == "worker_thread":
            await trio.to_thread.run_sync(first_look)
        elif variant == "task":
            first_look()
        if variant not in ("outside_run", "trio_imported_first") and not looked:
            problems.append("harness: the first look did not happen where planned")
        async with trio.open_nursery() as top:
            top.start_soon(root_task, name="ROOT")
            top.start_soon(hop_task, name="HOP")
            await trio.testing.wait_all_tasks_blocked()
            for _ in range(200):
                if entered.is_set():
                    break
                await trio.sleep(0.01)
            tasks = dict((t.name, t) for t in top.child_tasks)
            with warnings.catch_warnings(record=True) as w:
                warnings.simplefilter("always")
                st = stackscope.extract(tasks["ROOT"], recurse_child_tasks=True)
                hop = stackscope.extract(tasks["HOP"], recurse_child_tasks=True)
            caught.extend(w)
            res.evaluations += 2
            nurs = [c for f in st.frames for c in f.contexts if isinstance(c.obj, trio.Nursery)]
            if st.error is not None or hop.error is not None:
                problems.append("errors: %r / %r" % (st.error, hop.error))
            if len(nurs) != 1:
                problems.append("ROOT: %d contexts whose obj is a trio.Nursery (contexts: %r)" % (
                    len(nurs), [type(c.obj).__name__ for f in st.frames for c in f.contexts]))
            else:
                kids = nurs[0].children
                want = sorted(t.name for t in nurs[0].obj.child_tasks)
                got = sorted(getattr(k.root, "name", repr(k.root)) for k in kids)
                if got != want or want != ["kid-a", "kid-b"]:
                    problems.append("ROOT nursery children %r, Trio says %r" % (got, want))
                elif not all(k.frames and k.frames[-1].pyframe.f_code.co_name for k in kids):
                    problems.append("child stacks without frames")
                else:
                    res.nontrivial(interp, variant, "nursery")
            if blocker.__code__ not in [f.pyframe.f_code for f in hop.frames]:
                problems.append("HOP: the to_thread.run_sync hop is not followed into the worker thread: frames %r" % (
                    [f.funcname for f in hop.frames],))
            else:
                res.nontrivial(interp, variant, "hop")
            release.set()
            top.cancel_scope.cancel()

    if variant == "outside_run":
        first_look()
    try:
        trio.run(main, instruments=[Inst()])
    finally:
        release.set()
    res.count("first_use_cases")
    res.count("first_use_" + variant)
    glue_w = [str(x.message)[:200] for x in caught if "glue" in str(x.message).lower()]
    if glue_w:
        problems.append("glue installation warned: %s" % glue_w[0])
    if problems:
        res.violation(kind="trio glue depends on where stackscope first met Trio", first_use=variant,
                      problems=problems[:4], interp=interp)
    return res


def worker(spec):
    if spec["leg"] == "first_use":
        return first_use(spec)
    import random
    import threading
    import warnings
    from contextlib import asynccontextmanager
    from vlib.worker import Result
    from vlib import ctxwork
    import trio
    import trio.testing
    import stackscope
    from stackscope import Context

    res = Result()
    interp = "%d.%d" % sys.version_info[:2]
    budget = ctxwork.Budget(spec.get("budget_s", 60))
    rng = random.Random(spec["seed"])

    if spec["leg"] == "trees":
        ENDING_NAMES = ["condret", "forloop", "ifelse", "loop_continue", "nested_try", "nested_with", "plain", "tryexc",
                        "tryexc_else", "tryexc_from", "tryexc_raise", "tryexc_ret", "tryfin", "tryfin_stmt", "whilebreak"]

        def gen_tree(depth):
            n_nurs = rng.randint(0, 2) if depth < spec["depth"] else 0
            return dict(nurs=[dict(children=[gen_tree(depth + 1) for _ in range(rng.randint(0, spec["fan"]))],
                                   ending=rng.choice(ENDING_NAMES),
                                   acm=rng.random() < 0.3)
                              for _ in range(n_nurs)], block=rng.choice(["body", "aexit"]))

        def describe(spec_):
            return "T(%s;%s)" % (",".join("N[%s%s:%s]" % (n["ending"], "@" if n["acm"] else "",
                                                           ",".join(describe(c) for c in n["children"]))
                                          for n in spec_["nurs"]), spec_["block"])

        def count_nurs(spec_):
            return len(spec_["nurs"]) + sum(count_nurs(c) for n in spec_["nurs"] for c in n["children"])

        @asynccontextmanager
        async def nursery_in_acm():
            async with trio.open_nursery() as nursery:
                yield nursery

        async def run_task(spec_):
            await run_nurs(spec_, 0)

        # one function per body shape, generated from source so that the shape's last statement really is
        # the last statement of the `async with` body (its end falls straight into the exit sequence)
        ENDINGS = {
            "plain": ["await H.next(spec_, i)"],
            "tryexc": ["try:", "    await H.next(spec_, i)", "except KeyError:", "    pass"],
            "tryexc_raise": ["try:", "    await H.next(spec_, i)", "except KeyError:", "    raise"],
            "tryexc_from": ["try:", "    await H.next(spec_, i)", "except KeyError as e:", "    raise ValueError() from e"],
            "tryexc_ret": ["try:", "    await H.next(spec_, i)", "except KeyError:", "    return"],
            "tryexc_else": ["try:", "    H.noop()", "except KeyError:", "    raise", "else:", "    await H.next(spec_, i)"],
            "tryfin": ["try:", "    await H.next(spec_, i)", "finally:", "    pass"],
            "tryfin_stmt": ["try:", "    await H.next(spec_, i)", "finally:", "    H.noop()"],
            "condret": ["await H.next(spec_, i)", "if H.true():", "    return"],
            "ifelse": ["if H.true():", "    await H.next(spec_, i)", "else:", "    H.noop()"],
            "forloop": ["for _ in H.one():", "    await H.next(spec_, i)"],
            "whilebreak": ["while True:", "    await H.next(spec_, i)", "    break"],
            "loop_continue": ["for _ in H.one():", "    try:", "        await H.next(spec_, i)", "    except KeyError:",
                              "        continue"],
            "nested_with": ["with H.cm():", "    await H.next(spec_, i)"],
            "nested_try": ["try:", "    try:", "        await H.next(spec_, i)", "    except KeyError:", "        raise",
                           "finally:", "    H.noop()"],
        }

        class H(object):
            @staticmethod
            def opener(ns):
                return nursery_in_acm() if ns["acm"] else trio.open_nursery()

            @staticmethod
            def start(nursery, spec_, ns):
                for ch in ns["children"]:
                    nursery.start_soon(run_task, ch)
                if not ns["children"] and spec_["block"] == "aexit":
                    nursery.start_soon(trio.sleep_forever)

            @staticmethod
            async def next(spec_, i):
                await run_nurs(spec_, i + 1)

            @staticmethod
            def noop():
                pass

            @staticmethod
            def true():
                return True

            @staticmethod
            def one():
                return [0]

            @staticmethod
            def cm():
                import contextlib
                return contextlib.nullcontext()

        VARIANTS = {}
        for _name, _body in sorted(ENDINGS.items()):
            _src = ("async def run_nurs_%s(spec_, i, ns):\n"
                    # (a comprehension variable captured by a nested function: on 3.12+ it is a cell *and* a fast
                    # local of this function without being an argument)
                    "    _lc = [(lambda: _cq) for _cq in (1, 2)]\n"
                    "    async with H.opener(ns) as nursery:\n"
                    "        H.start(nursery, spec_, ns)\n" % _name) + "".join("        %s\n" % l for l in _body)
            _ns = {"H": H}
            exec(compile(_src, "<c14-nursery-body-%s>" % _name, "exec"), _ns)
            VARIANTS[_name] = _ns["run_nurs_%s" % _name]

        async def run_nurs(spec_, i):
            if i >= len(spec_["nurs"]):
                if spec_["block"] == "body" or not spec_["nurs"]:
                    await trio.sleep_forever()
                return
            ns = spec_["nurs"][i]
            res.count("ending_" + ns["ending"])
            await VARIANTS[ns["ending"]](spec_, i, ns)

        seen_nodes = {}

        def nursery_contexts(stack):
            out = []

            def visit(node):
                # the result must be a tree: no Context / Stack object may be reachable twice
                if id(node) in seen_nodes and seen_nodes[id(node)] is node:
                    raise NotATree(type(node).__name__)
                seen_nodes[id(node)] = node

            def walk_stack(st):
                for fr in st.frames:
                    for c in fr.contexts:
                        walk_ctx(c)

            def walk_ctx(c):
                visit(c)
                if isinstance(c.obj, trio.Nursery):
                    out.append(c)
                if c.inner_stack:
                    walk_stack(c.inner_stack)
                for ch in c.children:
                    if isinstance(ch, Context):
                        walk_ctx(ch)

            walk_stack(stack)
            return out

        bad = []

        class NotATree(Exception):
            pass

        def compare(task, stack, path, recurse):
            res.count("tasks_compared")
            if stack.error:
                bad.append((path, "error", repr(stack.error)))
            if stack.root is not task:
                bad.append((path, "root is not the task"))
            ctxs = nursery_contexts(stack)
            if [c.obj for c in ctxs] != list(task.child_nurseries):
                bad.append((path, "nursery contexts %d vs task.child_nurseries %d (identity/order)" % (
                    len(ctxs), len(task.child_nurseries))))
            # blocking point: the innermost visible frame belongs to the task's own coroutine chain
            for c, n in zip(ctxs, task.child_nurseries):
                res.count("nurseries_compared")
                roots = {id(ch.root): ch for ch in c.children}
                if set(roots) != {id(t) for t in n.child_tasks} or len(c.children) != len(n.child_tasks):
                    bad.append((path, "children of nursery context != nursery.child_tasks"))
                for t in n.child_tasks:
                    if id(t) in roots:
                        ch = roots[id(t)]
                        if recurse:
                            if not ch.frames:
                                bad.append((path, "child task not extracted although recursion was requested"))
                            compare(t, ch, path + (t.name,), recurse)
                        else:
                            res.count("stub_children_checked")
                            if ch.frames or ch.leaf is not None or ch.error is not None:
                                bad.append((path, "child stack is not a stub although recursion was not requested"))

        def count_blocked_in_aexit(stack):
            n = 0
            for fr in stack.frames:
                if fr.contexts and fr.contexts[-1].is_exiting and isinstance(fr.contexts[-1].obj, trio.Nursery):
                    n += 1
            return n

        async def main(spec_):
            async with trio.open_nursery() as top:
                top.start_soon(run_task, spec_, name="ROOT")
                await trio.testing.wait_all_tasks_blocked()
                root = [t for t in top.child_tasks][0]
                kept_results = []
                for recurse in (True, False, True):
                    with warnings.catch_warnings(record=True) as w:
                        warnings.simplefilter("always")
                        st = stackscope.extract(root, recurse_child_tasks=recurse)
                    if w:
                        bad.append(("warning", str(w[0].message)[:160]))
                    # results are values: what an earlier extraction returned must not change because of this one
                    from vlib import ctxmon as _ctxmon
                    for old_st, old_sig in kept_results:
                        res.count("earlier_results_rechecked")
                        if _ctxmon.value_signature(old_st) != old_sig:
                            bad.append(("an earlier result changed when a later extraction of the same tree ran",))
                    kept_results.append((st, _ctxmon.value_signature(st)))
                    seen_nodes.clear()
                    try:
                        compare(root, st, ("ROOT",), recurse)
                        if recurse:
                            def walk(st_):
                                res.count("tasks_blocked_in_aexit", count_blocked_in_aexit(st_))
                                seen_nodes.clear()
                                for c in nursery_contexts(st_):
                                    for ch in c.children:
                                        walk(ch)
                            walk(st)
                    except (NotATree, RecursionError) as ex:
                        bad.append(("the extracted structure is not a tree: a %s object is shared between two places "
                                    "(or the nesting is cyclic)" % (ex.args[0] if ex.args else "node"),))
                top.cancel_scope.cancel()

        def count_acm(spec_):
            return sum((1 if n["acm"] else 0) + sum(count_acm(c) for c in n["children"]) for n in spec_["nurs"])

        for i in range(spec["n"]):
            if budget.over():
                res.count("budget_cut")
                break
            tree = gen_tree(0)
            del bad[:]
            res.evaluations += 1
            trio.run(main, tree)
            res.count("trees")
            res.count("nurseries_inside_acm", count_acm(tree))
            if count_nurs(tree) >= 2:
                res.nontrivial(describe(tree))
            if bad:
                res.violation(kind="trio tree", tree=describe(tree), problems=[repr(b)[:300] for b in bad[:4]], interp=interp)
            if len(res.samples) < 2 and count_nurs(tree) >= 3:
                res.sample({"tree": describe(tree)})
        return res

    # ---- ping-pong chains ---------------------------------------------------------------------------
    results = {}
    DEPTH = [0]
    calllog = []
    EV = threading.Event()
    holder = {}

    def sync_lvl(k):
        calllog.append(("sync_lvl", k))
        if k >= DEPTH[0]:
            return bottom_sync()
        return trio.from_thread.run(async_lvl, k + 1)

    async def async_lvl(k):
        calllog.append(("async_lvl", k))
        if k >= DEPTH[0]:
            return await bottom_async()
        if VARIANT[0] == "falsy_callable":
            # the sync function is a callable object that happens to be falsy (an empty container with __call__)
            return await trio.to_thread.run_sync(FalsyCallable(), k + 1)
        if VARIANT[0] == "abandon_mixed" and k % 4 == 0:
            # only every other hop is an abandon_on_cancel one: a system task serving one call becomes the
            # host of the next, plain, reentrant call (Trio swaps its context meanwhile)
            return await trio.to_thread.run_sync(sync_lvl, k + 1, abandon_on_cancel=True)
        if VARIANT[0] == "abandon_on_cancel":
            # Trio then serves the thread's from_thread.run() in a system task instead of this task
            return await trio.to_thread.run_sync(sync_lvl, k + 1, abandon_on_cancel=True)
        return await trio.to_thread.run_sync(sync_lvl, k + 1)

    class FalsyCallable(object):
        def __len__(self):
            return 0

        def __call__(self, k):
            return sync_lvl(k)

    VARIANT = ["function"]

    def bottom_sync():
        calllog.append(("bottom_sync", None))
        trio.from_thread.run_sync(holder["arrived"].set)
        EV.wait()

    async def bottom_async():
        calllog.append(("bottom_async", None))
        holder["arrived"].set()
        await trio.sleep_forever()

    async def main(depth):
        holder["arrived"] = trio.Event()
        DEPTH[0] = depth
        EV.clear()
        del calllog[:]
        async with trio.open_nursery() as n:
            async def runner():
                calllog.append(("runner", None))
                await async_lvl(0)
            n.start_soon(runner, name="runner")
            await holder["arrived"].wait()
            await trio.sleep(0.05)
            task = [t for t in n.child_tasks][0]
            with warnings.catch_warnings(record=True) as w:
                warnings.simplefilter("always")
                s = stackscope.extract(task)
            results[depth] = (s, [str(x.message)[:80] for x in w], list(calllog))
            EV.set()
            n.cancel_scope.cancel()

    user = ("runner", "sync_lvl", "async_lvl", "bottom_sync", "bottom_async")
    for rep in range(spec["reps"]):
        for d in range(0, spec["max_depth"] + 1):
            VARIANT[0] = ("function", "falsy_callable", "abandon_on_cancel", "abandon_mixed")[rep % 4]
            res.evaluations += 1
            res.count("pingpong_chains")
            res.count("pingpong_" + VARIANT[0])
            try:
                trio.run(main, d)
            except BaseException as e:  # noqa
                res.inconclusive.append("trio.run raised %r" % (e,))
                continue
            s, w, log = results[d]
            if d >= 1:
                res.nontrivial("pingpong", d)
            got = [(f.funcname, f.pyframe.f_locals.get("k")) for f in s.frames if f.funcname in user]
            problems = []
            if got != log:
                problems.append("user frames %r != shadow call log %r" % (got, log))
            if s.error is not None:
                problems.append("error %r" % (s.error,))
            if w:
                problems.append("warning %r" % (w[0],))
            vis = [f.funcname for f in s.frames if not f.hide]
            if problems:
                res.violation(kind="trio thread ping-pong", depth=d, variant=VARIANT[0], problems=problems, visible=vis, interp=interp)
    # ---- a long stack: a task more than 100 awaits deep that opens its nurseries at the bottom
    async def deep_walker(n, started):
        if n:
            return await deep_walker(n - 1, started)
        async with trio.open_nursery() as inner:
            inner.start_soon(trio.sleep_forever, name="deep-kid-a")
            inner.start_soon(trio.sleep_forever, name="deep-kid-b")
            started.set()
            await trio.sleep_forever()

    async def deep_main(depth, out):
        started = trio.Event()
        async with trio.open_nursery() as top:
            top.start_soon(deep_walker, depth, started, name="deep")
            await started.wait()
            await trio.testing.wait_all_tasks_blocked()
            task = [t for t in top.child_tasks if t.name == "deep"][0]
            with warnings.catch_warnings(record=True) as w:
                warnings.simplefilter("always")
                out["stack"] = stackscope.extract(task, recurse_child_tasks=True)
            out["warnings"] = [str(x.message)[:100] for x in w]
            out["kids"] = sorted(t.name for n in task.child_nurseries for t in n.child_tasks)
            top.cancel_scope.cancel()

    for depth in (105, 130 + 10 * (spec["seed"] % 3)):
        out = {}
        try:
            trio.run(deep_main, depth, out)
        except BaseException as e:  # noqa
            res.inconclusive.append("deep-walker scenario raised %r" % (e,))
            continue
        res.evaluations += 1
        res.count("deep_task_cases")
        res.nontrivial("deep-task", depth)
        s = out["stack"]
        problems = []
        nwalk = sum(1 for f in s.frames if f.funcname == "deep_walker")
        if nwalk != depth + 1:
            problems.append("%d deep_walker frames, the task is %d deep" % (nwalk, depth + 1))
        if s.error is not None:
            problems.append("error %r" % (s.error,))
        if out["warnings"]:
            problems.append("warning %r" % (out["warnings"][0],))
        nurs = [c for f in s.frames for c in f.contexts if isinstance(c.obj, trio.Nursery)]
        got_kids = sorted(getattr(ch.root, "name", "?") for c in nurs for ch in c.children)
        if got_kids != out["kids"]:
            problems.append("children at the bottom %r, Trio has %r" % (got_kids, out["kids"]))
        if problems:
            res.violation(kind="trio: deep task", depth=depth, problems=problems[:3], interp=interp)

    # ---- sibling tasks whose worker threads were given the same thread_name (one string object)
    sib_ev = threading.Event()
    sib_arrived = []

    def sib_blocker(tag):
        sib_arrived.append(tag)
        sib_ev.wait(60)

    async def sib_hop(tag):
        await trio.to_thread.run_sync(sib_blocker, tag, thread_name="worker-db")

    async def sib_main(n_sib, out):
        del sib_arrived[:]
        sib_ev.clear()
        async with trio.open_nursery() as nur:
            for t in range(n_sib):
                nur.start_soon(sib_hop, t, name="sib%d" % t)
            with trio.fail_after(30):
                while len(sib_arrived) < n_sib:
                    await trio.sleep(0.01)
            await trio.sleep(0.05)
            with warnings.catch_warnings(record=True) as w:
                warnings.simplefilter("always")
                for t in nur.child_tasks:
                    out[t.name] = stackscope.extract(t)
            out["warnings"] = [str(x.message)[:100] for x in w]
            sib_ev.set()

    for rep in range(spec["reps"]):
        n_sib = 2 + rep % 2
        out = {}
        try:
            trio.run(sib_main, n_sib, out)
        except BaseException as e:  # noqa
            sib_ev.set()
            res.inconclusive.append("sibling scenario raised %r" % (e,))
            continue
        res.evaluations += 1
        res.count("same_thread_name_cases")
        res.nontrivial("same-thread-name", n_sib, rep)
        problems = []
        for t in range(n_sib):
            s = out.get("sib%d" % t)
            if s is None:
                problems.append("no stack for sibling %d" % t)
                continue
            got = [(f.funcname, f.pyframe.f_locals.get("tag")) for f in s.frames if f.funcname in ("sib_hop", "sib_blocker")]
            if got != [("sib_hop", t), ("sib_blocker", t)]:
                problems.append("sibling %d shows %r" % (t, got))
            if s.error is not None:
                problems.append("error %r" % (s.error,))
        if out.get("warnings"):
            problems.append("warning %r" % (out["warnings"][0],))
        if problems:
            res.violation(kind="trio: sibling to_thread calls with one thread_name", siblings=n_sib, problems=problems[:4],
                          interp=interp)

    # ---- two Trio runs alive at once: a to_thread worker of run A calls into run B with an explicit
    # token; the stack of the task in A must continue into the task of run B that serves the call
    import threading as _threading
    import time as _time

    class LoopB(object):
        def __init__(self):
            self.token = None
            self.ready = _threading.Event()
            self.thread = _threading.Thread(target=lambda: trio.run(self._main), daemon=True)
            self.thread.start()
            self.ready.wait(30)

        async def _main(self):
            self.token = trio.lowlevel.current_trio_token()
            self.stop = trio.Event()
            self.release = trio.Event()
            self.ready.set()
            await self.stop.wait()

    arrived = _threading.Event()
    log2 = []

    async def serve_in_b(loop_b):
        log2.append("serve_in_b")
        arrived.set()
        await loop_b.release.wait()
        return "served"

    def worker_fn(loop_b):
        log2.append("worker_fn")
        return trio.from_thread.run(serve_in_b, loop_b, trio_token=loop_b.token)

    async def hopper(loop_b):
        log2.append("hopper")
        return await trio.to_thread.run_sync(worker_fn, loop_b)

    async def main_a(loop_b, out):
        async with trio.open_nursery() as top:
            top.start_soon(hopper, loop_b, name="hopper")
            with trio.fail_after(30):
                while not arrived.is_set():
                    await trio.sleep(0.01)
            settled = _threading.Event()
            loop_b.token.run_sync_soon(settled.set)
            with trio.fail_after(30):
                while not settled.is_set():
                    await trio.sleep(0.01)
            await trio.testing.wait_all_tasks_blocked()
            task = [t for t in top.child_tasks if t.name == "hopper"][0]
            with warnings.catch_warnings(record=True) as w:
                warnings.simplefilter("always")
                out["stack"] = stackscope.extract(task)
            out["warnings"] = [str(x.message)[:100] for x in w]
            loop_b.token.run_sync_soon(loop_b.release.set)
            top.cancel_scope.cancel() if False else None

    for rep in range(spec["reps"]):
        del log2[:]
        arrived.clear()
        loop_b = LoopB()
        out = {}
        try:
            trio.run(main_a, loop_b, out)
        except BaseException as e:  # noqa
            res.inconclusive.append("two-run scenario raised %r" % (e,))
            continue
        finally:
            try:
                loop_b.token.run_sync_soon(loop_b.stop.set)
            except Exception:
                pass
            loop_b.thread.join(10)
        res.evaluations += 1
        res.count("two_run_cases")
        res.nontrivial("two-runs", rep)
        s = out.get("stack")
        problems = []
        if s is None:
            problems.append("no stack")
        else:
            got = [f.funcname for f in s.frames if f.funcname in ("hopper", "worker_fn", "serve_in_b")]
            if got != log2:
                problems.append("user frames %r != shadow call log %r (visible: %r)" % (
                    got, log2, [f.funcname for f in s.frames if not f.hide]))
            if s.error is not None:
                problems.append("error %r" % (s.error,))
            if out.get("warnings"):
                problems.append("warning %r" % (out["warnings"][0],))
        if problems:
            res.violation(kind="trio: thread inside from_thread.run of another run", problems=problems, interp=interp)
    res.sample({"leg": "pingpong", "depths": list(range(0, spec["max_depth"] + 1))})
    return res
