"""C04 - running-stack extraction and StackSlice slicing equal slices of the true stack.

Deciding method: independent second observation - a manual f_back walk (continuing at
greenlet.parent.gr_frame whenever f_back is None) cross-checked against a shadow call log
(each generated level records sys._getframe(0) on entry); expected slices are computed by plain
list slicing from the documented rules.
"""
import sys

PROPERTY = "C04"
LEVEL = "exploration"
TECHNIQUE = "runtime monitoring: manual f_back/greenlet-parent walk + shadow call log as oracle; list-slicing reference model"
RULE = ("stack plans of depth 1..N over {plain function, running generator, running coroutine, greenlet boundary} in every "
        "arrangement, run in a fresh thread; at the bottom extract_since(None) and the full cross product outer, inner in "
        "{None} + frames, limit in {None, 1..N+1} through extract(StackSlice), extract_since, extract_until (int and "
        "frame-valued limits). non-trivial = slice with a non-None anchor or limit; distinct by (interpreter, plan, outer "
        "index, inner index, limit, api)")
ASSUMPTIONS = ["truth = f_back walk from the caller, continuing through greenlet parents, equal to the shadow call log"]
MIN_NONTRIVIAL = {"quick": 20000, "thorough": 400000}
REQUIRED_COUNTERS = {"plans_with_greenlets": {"quick": 20, "thorough": 200},
                     "plans_with_frameless_ancestor_greenlets": {"quick": 20, "thorough": 200},
                     "extract_until_frame_limits": {"quick": 500, "thorough": 5000},
                     "slices_checked": {"quick": 20000, "thorough": 400000},
                     "calls_from_lookalike_modules": {"quick": 300, "thorough": 3000},
                     "extractions_from_a_resumed_frame": {"quick": 200, "thorough": 600},
                     "uses_of_a_reused_slice_object": {"quick": 300, "thorough": 3000}}
SHARD_TIMEOUT = {"quick": 400, "thorough": 5400}
EXHAUSTIVE = {"quick": False, "thorough": False}


def plan(tier, seed):
    shards = []
    maxd = 4 if tier == "quick" else 6
    parts = 8 if tier == "quick" else 12
    for p in range(parts):
        shards.append({"interp": "3.12", "alphabet": "fgcGUX", "max_depth": maxd, "part": p, "parts": parts,
                       "budget_s": 45 if tier == "quick" else 2400, "seed": seed})
    for interp in ("3.11", "3.10", "3.9"):
        for p in range(2 if tier == "quick" else 4):
            shards.append({"interp": interp, "alphabet": "fgc", "max_depth": maxd + 1, "part": p,
                           "parts": 2 if tier == "quick" else 4, "budget_s": 45 if tier == "quick" else 2400, "seed": seed})
    return shards


def worker(spec):
    import itertools
    import threading
    from vlib.worker import Result
    from vlib import ctxwork
    import stackscope
    from stackscope import StackSlice, extract, extract_since, extract_until
    try:
        import greenlet
    except ImportError:
        greenlet = None

    res = Result()
    interp = "%d.%d" % sys.version_info[:2]
    budget = ctxwork.Budget(spec.get("budget_s", 60))
    state = {}
    import os
    PKGDIR = os.path.dirname(os.path.abspath(stackscope.__file__))   # stackscope's own frames = code from there

    REUSED = {"bare": (StackSlice(), None), "limit1": (StackSlice(limit=1), 1), "limit2": (StackSlice(limit=2), 2)}

    def truth_frames(start):
        out = []
        cur = start
        if greenlet is None:
            while cur is not None:
                out.append(cur)
                cur = cur.f_back
            return out[::-1]
        g = greenlet.getcurrent()
        while g is not None:
            while cur is not None:
                out.append(cur)
                cur = cur.f_back
            g = g.parent
            if g is not None:
                cur = g.gr_frame
        return out[::-1]

    def check(label, api, got_stack, exp):
        res.evaluations += 1
        res.count("slices_checked")
        got = [f.pyframe for f in got_stack.frames]
        mine = [f for f in got if os.path.dirname(os.path.abspath(f.f_code.co_filename)) == PKGDIR]
        bad = None
        if len(got) != len(exp) or any(a is not b for a, b in zip(got, exp)):
            bad = "frames differ"
        elif got_stack.error is not None:
            bad = "error %r" % (got_stack.error,)
        elif mine:
            bad = "stackscope's own frames in the result"
        if bad:
            res.violation(kind="slice-mismatch", plan=state["plan"], api=api, case=repr(label), problem=bad,
                          got=[f.f_code.co_name for f in got], expected=[f.f_code.co_name for f in exp], interp=interp)
        if label[1:] != (None, None, None):
            res.nontrivial(interp, state["plan"], api, label)

    def bottom():
        me = sys._getframe(0)
        state["calllog"].append(me)
        T = truth_frames(me)
        # shadow call log: the generated levels must be a subsequence-suffix of the walk
        log = state["calllog"]
        tail = [f for f in T if any(f is x for x in log)]
        if len(tail) != len(log) or any(a is not b for a, b in zip(tail, log)):
            res.violation(kind="oracle disagreement: f_back walk vs call log", plan=state["plan"], interp=interp)
            return
        check(("since", None, None, None), "extract_since", extract_since(None), T)
        check(("since-nocontexts", None, None, None), "extract_since", extract_since(None, with_contexts=False), T)
        N = len(T)
        anchors = [None] + list(range(N))
        for o in anchors:
            for i in anchors:
                if o is not None and i is not None and o > i:
                    continue
                lo = 0 if o is None else o
                hi = N if i is None else i + 1
                for lim in [None] + list(range(1, N + 2)):
                    exp = T[lo:hi]
                    if lim is not None and len(exp) > lim:
                        exp = exp[:lim] if (i is None and o is not None) else exp[-lim:]
                    fo = None if o is None else T[o]
                    fi = None if i is None else T[i]
                    sl = StackSlice(outer=fo, inner=fi, limit=lim)
                    check(("slice", o, i, lim), "StackSlice", extract(sl, with_contexts=False), exp)
                    if sl.outer is not fo or sl.inner is not fi or sl.limit != lim:
                        res.violation(kind="the StackSlice passed in was modified by the extraction", plan=state["plan"],
                                      label=repr(("slice", o, i, lim)), now=repr(sl)[:200], interp=interp)
                    if i is None and lim is None:
                        check(("since", o, None, None), "extract_since", extract_since(fo, with_contexts=False), exp)
                    if o is None and i is not None:
                        check(("until", None, i, lim), "extract_until",
                              extract_until(fi, limit=lim, with_contexts=False), exp)
                if o is not None and i is not None:
                    # frame-valued limit: only when reachable by f_back from inner
                    f = T[i]
                    reach = False
                    while f is not None:
                        if f is T[o]:
                            reach = True
                            break
                        f = f.f_back
                    if reach:
                        res.count("extract_until_frame_limits")
                        check(("until-frame", o, i, None), "extract_until",
                              extract_until(T[i], limit=T[o], with_contexts=False), T[o:i + 1])
        # slice objects made once per process and used again from every other stack (a module-level
        # WHOLE_STACK = StackSlice() in a logging helper): each use describes the stack of that use
        for name, (sl, lim) in sorted(REUSED.items()):
            res.count("uses_of_a_reused_slice_object")
            check(("reused-" + name, None, None, lim), "StackSlice", extract(sl, with_contexts=False),
                  T if lim is None else T[-lim:])
            if sl.outer is not None or sl.inner is not None or sl.limit != lim:
                res.violation(kind="the StackSlice passed in was modified by the extraction", plan=state["plan"],
                              label="reused-" + name, now=repr(sl)[:200], interp=interp)
        # the caller may live in a module whose name merely *begins* like stackscope's (a plug-in, a vendored
        # helper): its frames are the caller's, not stackscope's own
        for modname in ("stackscope_addon", "stackscopex.sub", "stackscope._tests.lookalike"):
            tramp, FR = trampoline(modname)
            res.count("calls_from_lookalike_modules")
            check(("lookalike-since", modname, None, None), "extract_since", tramp(extract_since, None, with_contexts=False),
                  T + [FR[0]])
            check(("lookalike-since", modname, 0, None), "extract_since", tramp(extract_since, T[0], with_contexts=False),
                  T + [FR[0]])
            check(("lookalike-slice", modname, None, 1), "StackSlice",
                  tramp(extract, StackSlice(limit=1), with_contexts=False), [FR[0]])
            check(("lookalike-slice", modname, N - 1, None), "StackSlice",
                  tramp(extract, StackSlice(outer=T[N - 1]), with_contexts=False), [T[N - 1], FR[0]])
            check(("lookalike-slice", modname, 0, 2), "StackSlice",
                  tramp(extract, StackSlice(outer=T[0], limit=2), with_contexts=False), (T + [FR[0]])[:2])
        return N

    TRAMPS = {}

    def trampoline(modname):
        if modname not in TRAMPS:
            ns = {"__name__": modname, "sys": sys, "FR": [None]}
            exec(compile("def tramp(fn, *a, **k):\n    FR[0] = sys._getframe(0)\n    return fn(*a, **k)\n",
                         "<%s>" % modname, "exec"), ns)
            TRAMPS[modname] = (ns["tramp"], ns["FR"])
        return TRAMPS[modname]

    def lvl(k, plan_):
        state["calllog"].append(sys._getframe(0))
        if not plan_:
            return bottom()
        kind = plan_[0]
        if kind == "f":
            return lvl(k + 1, plan_[1:])
        if kind == "g":
            def gen():
                state["calllog"].append(sys._getframe(0))
                yield lvl(k + 1, plan_[1:])
            return next(gen())
        if kind == "c":
            async def co():
                state["calllog"].append(sys._getframe(0))
                return lvl(k + 1, plan_[1:])
            c = co()
            try:
                c.send(None)
            except StopIteration as ex:
                return ex.value
        if kind in ("G", "U", "X"):
            def body():
                state["calllog"].append(sys._getframe(0))
                return lvl(k + 1, plan_[1:])
            if kind == "G":
                gr = greenlet.greenlet(body)
            elif kind == "U":
                # the new greenlet's parent is a greenlet that was never started: it has no frames,
                # and an exception would pass straight through it to *its* parent
                u = greenlet.greenlet(lambda *a: None)
                gr = greenlet.greenlet(body, parent=u)
            else:
                # ... or one that is already dead
                d = greenlet.greenlet(lambda *a: None)
                d.switch()
                gr = greenlet.greenlet(body, parent=d)
            return gr.switch()
        raise AssertionError(kind)

    plans = []
    for d in range(1, spec["max_depth"] + 1):
        for p in itertools.product(spec["alphabet"], repeat=d):
            plans.append("".join(p))
    plans = [p for n, p in enumerate(plans) if n % spec["parts"] == spec["part"]]
    for p in plans:
        if budget.over():
            res.count("budget_cut")
            break
        state["plan"] = p
        state["calllog"] = []
        box = {}

        def run():
            try:
                box["n"] = lvl(0, p)
            except BaseException as ex:  # noqa
                box["exc"] = ex

        th = threading.Thread(target=run)
        th.start()
        th.join(300)
        if "exc" in box:
            ex = box["exc"]
            tb = ex.__traceback__
            in_lib = False
            while tb is not None:
                if os.path.dirname(os.path.abspath(tb.tb_frame.f_code.co_filename)) == PKGDIR:
                    in_lib = True
                tb = tb.tb_next
            if not in_lib:
                raise ex
            # the library raised where it should have returned a slice of the stack
            res.evaluations += 1
            res.violation(kind="slice-mismatch", plan=p, api="(raised)", case="exception out of stackscope",
                          problem="raised %r" % (ex,), interp=interp)
            continue
        res.count("plans")
        if "G" in p or "U" in p or "X" in p:
            res.count("plans_with_greenlets")
        if "U" in p or "X" in p:
            res.count("plans_with_frameless_ancestor_greenlets")
        if len(res.samples) < 2 and len(p) >= 3:
            res.sample({"plan": p, "stack_depth": box.get("n")})

    # one live generator / coroutine frame extracting its own running stack again and again while it is
    # resumed from different call chains: its callers are whoever resumed it *this* time
    import types as _types

    @_types.coroutine
    def _park():
        yield

    def judge_resumed(tag, me, got):
        T = truth_frames(me)
        N = len(T)
        res.count("extractions_from_a_resumed_frame")
        check(("resumed-since", tag, None, None), "extract_since", got[0], T)
        check(("resumed-since", tag, 0, None), "extract_since", got[1], T)
        check(("resumed-until", tag, N - 1, None), "extract_until", got[2], T)
        check(("resumed-until", tag, N - 1, 2), "extract_until", got[3], T[-2:])
        check(("resumed-slice", tag, None, 3), "StackSlice", got[4], T[-3:])

    # the extraction calls are made by the long-lived frame itself (it is the caller, the start of the walk)
    def reporting_gen():
        n = 0
        while True:
            me = sys._getframe(0)
            got = (extract_since(None, with_contexts=False), extract_since(truth_frames(me)[0], with_contexts=False),
                   extract_until(me, with_contexts=False), extract_until(me, limit=2, with_contexts=False),
                   extract(StackSlice(limit=3), with_contexts=False))
            judge_resumed(("gen", n), me, got)
            n += 1
            yield n

    async def reporting_coro():
        n = 0
        while True:
            me = sys._getframe(0)
            got = (extract_since(None, with_contexts=False), extract_since(truth_frames(me)[0], with_contexts=False),
                   extract_until(me, with_contexts=False), extract_until(me, limit=2, with_contexts=False),
                   extract(StackSlice(limit=3), with_contexts=False))
            judge_resumed(("coro", n), me, got)
            n += 1
            await _park()

    def pump(step, depth):
        if depth:
            return pump(step, depth - 1)
        return step()

    def pump_other(step, depth):
        # a different chain of callers of the same length
        if depth:
            return pump_other(step, depth - 1)
        return step()

    state["plan"] = "resumed-frame"
    g = reporting_gen()
    c = reporting_coro()
    seq = (0, 3, 1, 5, 2, 0, 4, 4, 1) * (2 if spec.get("budget_s", 60) < 100 else 6)
    # each on its own (nothing else extracts in between), then interleaved
    for i, depth in enumerate(seq):
        (pump if i % 2 else pump_other)(lambda: next(g), depth)
    for i, depth in enumerate(seq):
        (pump_other if i % 2 else pump)(lambda: c.send(None), depth)
    for i, depth in enumerate(seq):
        (pump if i % 2 else pump_other)(lambda: next(g), depth)
        (pump_other if i % 2 else pump)(lambda: c.send(None), depth)
    g.close()
    c.close()
    return res
