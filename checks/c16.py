"""C16 - Frame.origin and extract_outermost keep their documented contracts.

Deciding method: rides on the C03 chain generator with an independently computed frame->owner map
(cr_await / gi_yieldfrom / ag_await walk); for every extracted frame the origin contract is
evaluated by calling extract_outermost(origin) while the target is unmoved; running targets,
threads, greenlets and custom stack items are added.
"""
import sys
import warnings

PROPERTY = "C16"
LEVEL = "exploration"
TECHNIQUE = "runtime monitoring: origin contract evaluated on every extracted frame against an independent owner map"
RULE = ("every frame of every chain in the C03 space at every suspension; plus running coroutines/generators/async "
        "generators extracting themselves from nested calls, blocked threads, suspended/current greenlets (3.12) and "
        "custom stack items with and without frames / with raising hooks. non-trivial = frame with a non-None origin "
        "or an extract_outermost error-path case; distinct by (interpreter, case, frame index)")
ASSUMPTIONS = ["owner map is built from cr_await/gi_yieldfrom/ag_await and gc referents of C-level awaitables"]
MIN_NONTRIVIAL = {"quick": 3000, "thorough": 40000}
REQUIRED_COUNTERS = {"origin_checked": {"quick": 5000, "thorough": 50000},
                     "running_frames_checked": {"quick": 100, "thorough": 1000},
                     "recursive_running_targets": {"quick": 50, "thorough": 500},
                     "outermost_error_cases": {"quick": 40, "thorough": 400},
                     "outermost_multi_error_cases": {"quick": 4, "thorough": 40},
                     "outermost_exiting_cases": {"quick": 8, "thorough": 80},
                     "origin_checked_without_contexts": {"quick": 5000, "thorough": 20000},
                     "outermost_option_combinations": {"quick": 200, "thorough": 2000}}
SHARD_TIMEOUT = {"quick": 400, "thorough": 5400}
INTERPS = ["3.12", "3.11", "3.10", "3.9"]


def plan(tier, seed):
    shards = []
    nsh = 3 if tier == "quick" else 7
    for interp in INTERPS:
        for s in range(nsh):
            shards.append({"interp": interp, "leg": "chains", "seed": seed, "part": s, "parts": nsh,
                           "depth": 3 if tier == "quick" else 5, "exhaustive_depth": 2 if tier == "quick" else 3,
                           "sample": 200 if tier == "quick" else 3000, "budget_s": 40 if tier == "quick" else 1500})
        shards.append({"interp": interp, "leg": "other", "seed": seed, "reps": 20 if tier == "quick" else 200})
    return shards


def check_frame_origin(stackscope, weakref, fr, owner, res, where, interp, must_have_owner):
    o = fr.origin
    problems = []
    res.evaluations += 1   # an evaluation = one extracted frame whose origin contract is checked
    res.count("origin_checked")
    if must_have_owner and o is not owner:
        problems.append("origin is %r, the frame belongs to %r" % (o, owner))
    if o is not None:
        try:
            weakref.ref(o)
        except TypeError:
            problems.append("origin %r is not weak-referenceable" % (o,))
        try:
            fo = stackscope.extract_outermost(o)
            if fo.pyframe is not fr.pyframe:
                problems.append("extract_outermost(origin).pyframe is %s, not this frame (%s)" % (
                    fo.pyframe.f_code.co_name, fr.pyframe.f_code.co_name))
        except Exception as ex:
            problems.append("extract_outermost(origin) raised %r" % (ex,))
    if problems:
        res.violation(kind="origin-contract", where=where, frame=fr.funcname, problems=problems, interp=interp)
    return o is not None


def worker(spec):
    import random
    import threading
    import types
    import weakref
    from vlib.worker import Result
    from vlib import chains, ctxwork
    import stackscope
    res = Result()
    interp = "%d.%d" % sys.version_info[:2]
    budget = ctxwork.Budget(spec.get("budget_s", 60))
    def chains_leg():
        rng = random.Random(spec["seed"] * 101 + 1)
        specs = chains.enumerate_specs(spec["exhaustive_depth"])
        specs += chains.enumerate_specs(spec["depth"], rng=rng, sample=spec["sample"])
        specs = [s for i, s in enumerate(specs) if i % spec["parts"] == spec["part"]]
        from vlib import runaway
        guard = runaway.install(2000000)
        for cs in specs:
            if budget.over():
                res.count("budget_cut")
                break
            guard.reset()
            try:
                chain_case(cs)
            except runaway.Runaway as ex:
                # decided on steps, not on time: every chain here is finite
                res.violation(kind="extraction of a finite chain does not terminate", spec=repr(cs), detail=str(ex),
                              largest_count_on_completed_chains=guard.max_seen, interp=interp)
                if res.counters.get("violations", 0) >= 5:
                    break
                continue
            res.count("chains")
        guard.reset()
        res.counters["max_unwrap_steps_per_chain"] = guard.max_seen
        res.sample({"leg": "chains", "example_spec": repr(specs[-1]) if specs else None})
        return res

    def chain_case(cs):
        if True:
            t = chains.Target(cs)
            j = 0
            while t.step():
                j += 1
                if j > 40:
                    break
                res.evaluations += 1
                # origins do not depend on the options of the extraction
                s = stackscope.extract(t.x) if j % 2 else stackscope.extract(t.x, with_contexts=False)
                if not j % 2:
                    res.count("origin_checked_without_contexts")
                om = chains.owner_map(t.x)
                for i, fr in enumerate(s.frames):
                    owner = om.get(id(fr.pyframe))
                    if check_frame_origin(stackscope, weakref, fr, owner, res, "chain %r susp %d" % (cs, j), interp,
                                          must_have_owner=True):
                        res.nontrivial(interp, repr(cs), j, i)
                if s.frames:
                    fo = stackscope.extract_outermost(t.x, with_contexts=bool(j % 2))
                    f0 = s.frames[0]
                    res.count("outermost_eq_checked")
                    if not (fo.pyframe is f0.pyframe and fo.lineno == f0.lineno and fo.contexts == f0.contexts
                            and fo.hide == f0.hide and fo.hide_line == f0.hide_line and fo.origin is f0.origin):
                        res.violation(kind="extract_outermost != frames[0]", spec=repr(cs), susp=j, interp=interp)
            # exhausted: extract_outermost must raise RuntimeError
            if t.done:
                res.count("outermost_error_cases")
                try:
                    stackscope.extract_outermost(t.x)
                    res.violation(kind="extract_outermost did not raise on exhausted target", spec=repr(cs), interp=interp)
                except RuntimeError:
                    pass
                except Exception as ex:
                    res.violation(kind="extract_outermost raised the wrong thing", error=repr(ex), interp=interp)
            t.close()

    if spec["leg"] == "chains":
        return chains_leg()

    # ---- other targets ------------------------------------------------------------------------
    from stackscope import unwrap_stackitem
    results = []

    def inspect_self(x, label, depth):
        """called (through `depth` plain calls) from inside a running x"""
        if depth:
            return inspect_self(x, label, depth - 1)
        res.evaluations += 1
        s = stackscope.extract(x)
        own = getattr(x, "cr_frame", None) or getattr(x, "gi_frame", None) or getattr(x, "ag_frame", None)
        for i, fr in enumerate(s.frames):
            res.count("running_frames_checked")
            owner = x if fr.pyframe is own else None
            if check_frame_origin(stackscope, weakref, fr, owner, res, "running %s" % label, interp,
                                  must_have_owner=False):
                res.nontrivial(interp, "running", label, i)
        if not s.frames or s.frames[0].pyframe is not own:
            res.violation(kind="running target: first frame is not its own frame", label=label, interp=interp)
        fo = stackscope.extract_outermost(x)
        if fo.pyframe is not s.frames[0].pyframe:
            res.violation(kind="extract_outermost != frames[0] (running)", label=label, interp=interp)
        # the whole current stack
        s2 = stackscope.extract_since(None)
        for i, fr in enumerate(s2.frames):
            res.count("running_frames_checked")
            check_frame_origin(stackscope, weakref, fr, None, res, "extract_since(None) in %s" % label, interp, False)

    for rep in range(spec["reps"]):
        for d in (0, 1, 3):
            box = []

            async def co():
                inspect_self(box[0], "coroutine depth %d" % d, d)

            x = co()
            box.append(x)
            try:
                x.send(None)
            except StopIteration:
                pass

            def gen():
                inspect_self(box[1], "generator depth %d" % d, d)
                yield 1

            g = gen()
            box.append(g)
            next(g)

            async def inner_co():
                inspect_self(box[2], "outer coroutine with running inner coroutine, depth %d" % d, d)

            async def outer_co():
                await inner_co()

            oc = outer_co()
            box.append(oc)
            try:
                oc.send(None)
            except StopIteration:
                pass

            async def agen():
                inspect_self(box[3], "async generator depth %d" % d, d)
                yield 1

            ag = agen()
            box.append(ag)
            try:
                ag.asend(None).send(None)
            except StopIteration:
                pass
            g.close()
            try:
                ag.aclose().send(None)
            except (StopIteration, StopAsyncIteration):
                pass

            # recursion: the running target's callees run the *same code object* as the target
            def rgen(n):
                if n:
                    for v in rgen(n - 1):
                        yield v
                else:
                    inspect_self(box[4], "recursive generator (for loop) depth %d" % d, d)
                    yield 0

            rg = rgen(3)
            box.append(rg)
            for _ in rg:
                pass

            def rgen2(n):
                if n:
                    yield from rgen2(n - 1)
                else:
                    inspect_self(box[5], "recursive generator (yield from) depth %d" % d, d)
                    yield 0

            rg2 = rgen2(3)
            box.append(rg2)
            for _ in rg2:
                pass

            async def rco(n):
                if n:
                    return await rco(n - 1)
                inspect_self(box[6], "recursive coroutine depth %d" % d, d)

            rc = rco(3)
            box.append(rc)
            try:
                rc.send(None)
            except StopIteration:
                pass
            res.count("recursive_running_targets", 3)

        # blocked thread running a generator in progress
        lock = threading.Lock()
        lock.acquire()
        ready = threading.Event()

        def tgen():
            ready.set()
            lock.acquire()
            yield 1

        def tmain():
            for _ in tgen():
                break

        th = threading.Thread(target=tmain, daemon=True)
        th.start()
        ready.wait(10)
        import time
        for _ in range(200):
            fr = sys._current_frames().get(th.ident)
            if fr is not None and fr.f_code.co_name == "tgen":
                break
            time.sleep(0.001)
        res.evaluations += 1
        s = stackscope.extract(th)
        for i, fr in enumerate(s.frames):
            if check_frame_origin(stackscope, weakref, fr, None, res, "thread", interp, False):
                res.nontrivial(interp, "thread", i)
        if s.frames:
            fo = stackscope.extract_outermost(th)
            if fo.pyframe is not s.frames[0].pyframe or fo.hide != s.frames[0].hide:
                res.violation(kind="extract_outermost != frames[0] (thread)", interp=interp)
        lock.release()
        th.join(10)
        # finished thread: no frames -> RuntimeError
        res.count("outermost_error_cases")
        try:
            stackscope.extract_outermost(th)
            res.violation(kind="extract_outermost(finished thread) did not raise", interp=interp)
        except RuntimeError:
            pass

    # custom items ---------------------------------------------------------------------------------
    class Item(object):
        def __init__(self, result):
            self.result = result

    class Boom(Exception):
        pass

    @unwrap_stackitem.register(Item)
    def _unwrap_item(it):
        r = it.result
        if isinstance(r, Exception):
            raise r
        return r

    def suspended_gen():
        yield 1

    for rep in range(spec["reps"]):
        g1 = suspended_gen()
        next(g1)
        g2 = suspended_gen()
        next(g2)
        cases = [
            ("item->generator", Item(g1), True),
            ("item->[generator, generator]", Item([g1, g2]), True),
            ("item->(frame,)", Item((g1.gi_frame,)), True),
            ("item->item->generator", Item(Item(g2)), True),
            ("item->None", Item(None), False),
            ("item->[]", Item([]), False),
            ("plain int", 42, False),
            ("plain object", object(), False),
        ]
        for label, item, has_frames in cases:
            res.evaluations += 1
            s = stackscope.extract(item)
            for i, fr in enumerate(s.frames):
                if check_frame_origin(stackscope, weakref, fr, None, res, label, interp, False):
                    res.nontrivial(interp, "custom", label, i)
            if has_frames:
                fo = stackscope.extract_outermost(item)
                if fo != s.frames[0]:
                    res.violation(kind="extract_outermost != frames[0] (custom)", label=label, interp=interp)
            else:
                res.count("outermost_error_cases")
                res.nontrivial(interp, "custom-error", label)
                try:
                    stackscope.extract_outermost(item)
                    res.violation(kind="extract_outermost did not raise with no frames", label=label, interp=interp)
                except RuntimeError:
                    pass
                except Exception as ex:
                    res.violation(kind="extract_outermost raised the wrong thing", label=label, error=repr(ex), interp=interp)
        boom = Boom("recorded")
        item = Item(boom)
        s = stackscope.extract(item)
        res.count("outermost_error_cases")
        res.nontrivial(interp, "custom-error", "raising")
        if s.error is not boom:
            res.violation(kind="recorded error is not the raised one", error=repr(s.error), interp=interp)
        try:
            stackscope.extract_outermost(item)
            res.violation(kind="extract_outermost did not re-raise the recorded error", interp=interp)
        except Boom as ex:
            if ex is not boom:
                res.violation(kind="extract_outermost re-raised a different exception", interp=interp)
        except Exception as ex:
            res.violation(kind="extract_outermost raised %r instead of the recorded error" % (ex,), interp=interp)
        # several recorded errors and no frame: extract records them as a group, extract_outermost has to
        # raise the same thing - not just the first of them
        for nfail in (2, 3):
            booms = [Boom("recorded %d" % i) for i in range(nfail)]
            item = Item([Item(b) for b in booms])
            s = stackscope.extract(item)
            res.evaluations += 1
            res.count("outermost_error_cases")
            res.count("outermost_multi_error_cases")
            res.nontrivial(interp, "custom-error", "raising x%d" % nfail)
            rec = list(getattr(s.error, "exceptions", ())) if s.error is not None else []
            if s.frames or len(rec) != nfail or any(a is not b for a, b in zip(rec, booms)):
                res.violation(kind="recorded errors are not the raised ones", error=repr(s.error), interp=interp)
                continue
            try:
                stackscope.extract_outermost(item)
                res.violation(kind="extract_outermost did not re-raise the recorded errors", interp=interp)
            except Exception as ex:  # noqa
                got = list(getattr(ex, "exceptions", ()))
                if type(ex) is not type(s.error) or len(got) != nfail or any(a is not b for a, b in zip(got, booms)):
                    res.violation(kind="extract_outermost raised %r, extract recorded %r" % (ex, s.error), interp=interp)
        g1.close()
        g2.close()

    # all option combinations: the first frame's contexts (children included) must agree --------------
    from stackscope import elaborate_context, extract_child

    class TaskLike(object):
        """stands for an async child task: unwraps to a parked generator"""

    @unwrap_stackitem.register(TaskLike)
    def _unwrap_tasklike(t):
        return t.gen

    class NurseryLike(object):
        def __init__(self, tasks):
            self.tasks = tasks

        def __enter__(self):
            return self

        def __exit__(self, *e):
            return False

    @elaborate_context.register(NurseryLike)
    def _elab_nurserylike(mgr, ctx):
        ctx.children = [extract_child(t, for_task=True) for t in mgr.tasks]

    def holder(n):
        with n:
            yield 1

    def deep_eq(a, b):
        """structural equality of Context lists including child Stacks' frames"""
        if len(a) != len(b):
            return False
        for ca, cb in zip(a, b):
            if ca.obj is not cb.obj or ca.is_async != cb.is_async or ca.is_exiting != cb.is_exiting \
                    or ca.varname != cb.varname or ca.start_line != cb.start_line or len(ca.children) != len(cb.children):
                return False
            for xa, xb in zip(ca.children, cb.children):
                fa = [f.pyframe for f in getattr(xa, "frames", [])]
                fb = [f.pyframe for f in getattr(xb, "frames", [])]
                if fa != fb or getattr(xa, "root", None) is not getattr(xb, "root", None):
                    return False
        return True

    for rep in range(spec["reps"]):
        tasks = []
        for _ in range(2):
            t = TaskLike()
            t.gen = suspended_gen()
            next(t.gen)
            tasks.append(t)
        h = holder(NurseryLike(tasks))
        next(h)
        for wc in (True, False):
            for rc in (True, False):
                res.evaluations += 1
                res.count("outermost_option_combinations")
                res.nontrivial(interp, "options", wc, rc)
                s = stackscope.extract(h, with_contexts=wc, recurse_child_tasks=rc)
                fo = stackscope.extract_outermost(h, with_contexts=wc, recurse_child_tasks=rc)
                f0 = s.frames[0]
                if fo.pyframe is not f0.pyframe or fo.lineno != f0.lineno or not deep_eq(list(fo.contexts), list(f0.contexts)):
                    res.violation(kind="extract_outermost(x, options) differs from extract(x, options).frames[0]",
                                  with_contexts=wc, recurse_child_tasks=rc,
                                  outermost_children=[len(getattr(c, "frames", [])) for cx in fo.contexts for c in cx.children],
                                  extract_children=[len(getattr(c, "frames", [])) for cx in f0.contexts for c in cx.children],
                                  interp=interp)
                if wc and rc and not any(getattr(c, "frames", None) for cx in f0.contexts for c in cx.children):
                    res.violation(kind="harness: recursion requested but no populated child stack", interp=interp)
        h.close()
        for t in tasks:
            t.gen.close()

    # outermost frame in the middle of leaving a with block: the exiting manager (read off the *next*
    # frame) and everything fill_context derives from it must be the same through both entry points
    import contextlib
    import types as _types

    @_types.coroutine
    def _park():
        yield "parked"

    class ExitingACM(object):
        async def __aenter__(self):
            return self

        async def __aexit__(self, *e):
            await _park()

    @contextlib.asynccontextmanager
    async def exiting_gcm():
        try:
            yield
        finally:
            await _park()

    async def leaves_class_based():
        async with ExitingACM():
            pass

    async def leaves_generator_based():
        async with exiting_gcm():
            pass

    for rep in range(spec["reps"]):
        for label, fn in (("class-based", leaves_class_based), ("generator-based", leaves_generator_based)):
            co = fn()
            co.send(None)
            res.evaluations += 1
            res.count("outermost_exiting_cases")
            res.nontrivial(interp, "outermost-exiting", label)
            s = stackscope.extract(co)
            fo = stackscope.extract_outermost(co)
            f0 = s.frames[0]
            if not (f0.contexts and f0.contexts[-1].is_exiting and f0.contexts[-1].obj is not None):
                res.violation(kind="harness: outermost frame is not exiting a manager", label=label, interp=interp)
            elif fo.pyframe is not f0.pyframe or not deep_eq(list(fo.contexts), list(f0.contexts)) \
                    or [c.description for c in fo.contexts] != [c.description for c in f0.contexts] \
                    or (fo.hide, fo.hide_line) != (f0.hide, f0.hide_line):
                res.violation(kind="extract_outermost(x) differs from extract(x).frames[0] while a manager is exiting",
                              label=label, outermost=[(type(c.obj).__name__, c.is_exiting) for c in fo.contexts],
                              extract=[(type(c.obj).__name__, c.is_exiting) for c in f0.contexts], interp=interp)
            co.close()

    # greenlets (3.12 only) --------------------------------------------------------------------------
    try:
        import greenlet
    except ImportError:
        greenlet = None
    if greenlet is not None:
        for rep in range(spec["reps"]):
            def gl_main():
                gen_in_gl = suspended_gen()
                next(gen_in_gl)
                main.switch()

            main = greenlet.getcurrent()
            gl = greenlet.greenlet(gl_main)
            gl.switch()
            res.evaluations += 1
            s = stackscope.extract(gl)
            for i, fr in enumerate(s.frames):
                if check_frame_origin(stackscope, weakref, fr, None, res, "greenlet", interp, False):
                    res.nontrivial(interp, "greenlet", i)
            if s.frames:
                fo = stackscope.extract_outermost(gl)
                if fo.pyframe is not s.frames[0].pyframe:
                    res.violation(kind="extract_outermost != frames[0] (greenlet)", interp=interp)
            gl.throw(greenlet.GreenletExit)
        res.count("greenlet_cases", spec["reps"])
    res.sample({"leg": "other", "cases": ["running coroutine/generator/agen at call depth 0,1,3", "blocked thread",
                                          "custom items", "greenlet"]})
    return res
