"""C15 - greenlet stacks: suspended, current, dead, foreign-thread, and greenback bridges.

Deciding method: independent second observation - gr_frame -> f_back walk for suspended greenlets,
shadow call log for the current one; every greenlet of a parent chain is inspected from the main
greenlet, from itself, from a sibling and from a descendant.  Greenback alternations are checked
against a shadow chain of the harness-defined functions under Trio.
"""
import sys

PROPERTY = "C15"
LEVEL = "exploration"
TECHNIQUE = "runtime monitoring: gr_frame/f_back walk and shadow call log as oracle for greenlet and greenback stacks"
RULE = ("greenlet parent chains of depth 1..N with call depth 1..3 inside each greenlet; every greenlet of the chain is "
        "extracted from the innermost (running) greenlet, from the main greenlet, from a sibling and from a descendant "
        "greenlet; unstarted, dead and other-thread states; greenback await_ alternation depth 0..M under Trio, extracted "
        "from inside the task and from a run_sync_soon callback. non-trivial = suspended greenlet with >=2 frames asked "
        "from a non-main greenlet, or a greenback depth >= 1; distinct by (chain shape, target index, asker)")
ASSUMPTIONS = ["CPython 3.12 only (greenlet/greenback are installed for that interpreter only)",
               "greenlet entry functions are Python functions (a suspended greenlet always has a gr_frame)",
               "the greenback API functions the task itself called (with_portal_run*, greenback_shim) may be visible; "
               "the bridging machinery (shims, trampoline, await_, switch) may not",
               "greenback bridging internals = frames of greenback._impl when awaiting coroutines (adapt_awaitable "
               "for non-coroutine awaitables is shown by design, see the repository's own test)"]
MIN_NONTRIVIAL = {"quick": 500, "thorough": 5000}
REQUIRED_COUNTERS = {"asked_from_descendant": {"quick": 100, "thorough": 1000},
                     "asked_from_sibling": {"quick": 100, "thorough": 1000},
                     "asked_from_self": {"quick": 50, "thorough": 500},
                     "lifecycle_cases": {"quick": 10, "thorough": 30},
                     "frameless_parent_cases": {"quick": 6, "thorough": 6},
                     "self_extraction_at_call_depth_one": {"quick": 4, "thorough": 4},
                     "greenback_extractions": {"quick": 80, "thorough": 320},
                     "portal_with_portal_run_sync": {"quick": 5, "thorough": 20},
                     "greenback_resumed_by_throw": {"quick": 5, "thorough": 7},
                     "suspended_after_being_seen_running_elsewhere": {"quick": 5, "thorough": 20}}
SHARD_TIMEOUT = {"quick": 400, "thorough": 3600}


def plan(tier, seed):
    shards = []
    parts = 4 if tier == "quick" else 12
    for p in range(parts):
        shards.append({"interp": "3.12", "leg": "greenlet", "max_chain": 4 if tier == "quick" else 6, "part": p,
                       "parts": parts, "seed": seed})
    shards.append({"interp": "3.12", "leg": "greenback", "max_depth": 8 if tier == "quick" else 24, "seed": seed})
    shards.append({"interp": "3.12", "leg": "lifecycle", "seed": seed, "reps": 5 if tier == "quick" else 30})
    return shards


def worker(spec):
    import itertools
    import threading
    from vlib.worker import Result
    import greenlet
    import stackscope
    from stackscope import extract

    res = Result()
    interp = "%d.%d" % sys.version_info[:2]

    def own_walk(gl):
        """frames of a suspended greenlet, outermost first, by gr_frame/f_back"""
        out = []
        f = gl.gr_frame
        while f is not None:
            out.append(f)
            f = f.f_back
        return out[::-1]

    def judge(label, target_idx, asker, s, exp):
        res.evaluations += 1
        got = [f.pyframe for f in s.frames]
        bad = None
        if len(got) != len(exp) or any(a is not b for a, b in zip(got, exp)):
            bad = "frames differ: got %r expected %r" % ([f.f_code.co_name for f in got], [f.f_code.co_name for f in exp])
        elif s.error is not None:
            bad = "error %r" % (s.error,)
        res.count("asked_from_" + asker)
        if asker != "main" and len(exp) >= 2:
            res.nontrivial(label, target_idx, asker)
        if bad:
            res.violation(kind="greenlet-stack", case=label, target=target_idx, asker=asker, problem=bad, interp=interp)

    if spec["leg"] == "greenlet":
        shapes = []
        for n in range(1, spec["max_chain"] + 1):
            for depths in itertools.product((1, 2, 3), repeat=n):
                shapes.append(depths)
        shapes = [s for i, s in enumerate(shapes) if i % spec["parts"] == spec["part"]]
        for depths in shapes:
            label = "chain depths=%r" % (depths,)
            main = greenlet.getcurrent()
            G = []
            logs = {}

            def make_body(level):
                def body():
                    logs[level] = []
                    return calls(level, depths[level])
                body.__name__ = "entry_g%d" % level
                return body

            def calls(level, d):
                logs[level].append(sys._getframe(0))
                if d > 1:
                    return calls(level, d - 1)
                if level + 1 < len(depths):
                    g = greenlet.greenlet(make_body(level + 1))  # parent = current = G[level]
                    G.append(g)
                    g.switch()
                    return
                # innermost greenlet, running: inspect everything from here
                me = greenlet.getcurrent()
                for idx, gl in enumerate(G):
                    if gl is me:
                        s = extract(gl)
                        # exactly its own portion of the running stack: entry function .. caller
                        exp = []
                        f = sys._getframe(0)
                        while f is not None:
                            exp.append(f)
                            f = f.f_back
                        judge(label, idx, "self", s, exp[::-1])
                    else:
                        judge(label, idx, "descendant", extract(gl), own_walk(gl))
                main.switch()

            g0 = greenlet.greenlet(make_body(0))
            G.append(g0)
            g0.switch()
            # now every greenlet of the chain is suspended
            for idx, gl in enumerate(G):
                exp = own_walk(gl)
                # shadow call log cross-check: the harness-defined frames are the walk minus the entry lambda
                judge(label, idx, "main", extract(gl), exp)
                if [f for f in exp if f.f_code.co_name == "calls"] != [f for f in logs[idx]]:
                    res.violation(kind="oracle disagreement (walk vs call log)", case=label, interp=interp)
            box = {}

            def sibling():
                for idx, gl in enumerate(G):
                    judge(label, idx, "sibling", extract(gl), own_walk(gl))

            greenlet.greenlet(sibling).switch()
            for pidx, parent in enumerate(G):
                def asker():
                    for idx, gl in enumerate(G):
                        judge(label, idx, "descendant", extract(gl), own_walk(gl))
                k = greenlet.greenlet(asker, parent=parent)
                k.switch()
            # let the chain finish: innermost resumes after main.switch() and returns, parents follow
            G[-1].switch()
            for idx, gl in enumerate(G):
                if not gl.dead:
                    try:
                        gl.throw(greenlet.GreenletExit)
                    except BaseException:
                        pass
            for idx, gl in enumerate(G):
                if gl.dead:
                    s = extract(gl)
                    res.count("dead_after_chain")
                    if s.frames or s.error is not None:
                        res.violation(kind="dead greenlet has frames/error", case=label, interp=interp)
            res.count("chains")
            if len(res.samples) < 2:
                res.sample({"chain_call_depths": list(depths)})
        return res

    if spec["leg"] == "lifecycle":
        # a greenlet whose parent has no frames (never started, or already dead): an exception would pass
        # straight through such a parent, but the greenlet's own portion is still just its own frames
        main_gl = greenlet.getcurrent()
        for pkind in ("unstarted", "dead"):
            for d in (1, 2, 3):
                par = greenlet.greenlet(lambda *a: None)
                if pkind == "dead":
                    par.switch()
                box = {}

                def deeper(k):
                    if k > 1:
                        return deeper(k - 1)
                    me = greenlet.getcurrent()
                    exp = []
                    f = sys._getframe(0)
                    while f is not None:
                        exp.append(f)
                        f = f.f_back
                    box["self"] = (extract(me), exp[::-1])

                    def child_asks():
                        box["child"] = (extract(me), own_walk(me))
                    greenlet.greenlet(child_asks).switch()
                    main_gl.switch()

                def fp_entry():
                    return deeper(d)

                g = greenlet.greenlet(fp_entry, parent=par)
                g.switch()
                label = "parent %s, call depth %d" % (pkind, d)
                res.count("frameless_parent_cases")
                judge(label, 0, "self", box["self"][0], box["self"][1])
                judge(label, 0, "descendant", box["child"][0], box["child"][1])
                judge(label, 0, "outside", extract(g), own_walk(g))
                try:
                    g.throw(greenlet.GreenletExit)
                except BaseException:
                    pass
        # the calling greenlet extracts itself straight from its entry function (call depth exactly 1), below
        # parents of every kind
        for pkind in ("main", "live", "unstarted", "dead"):
            box = {}

            def self_entry():
                me = greenlet.getcurrent()
                box["r"] = (extract(me), [sys._getframe(0)])
                return 0

            def live_parent_body():
                g2 = greenlet.greenlet(self_entry)     # parent = this (live, non-main) greenlet
                g2.switch()

            res.count("self_extraction_at_call_depth_one")
            if pkind == "main":
                greenlet.greenlet(self_entry).switch()
            elif pkind == "live":
                greenlet.greenlet(live_parent_body).switch()
            else:
                par = greenlet.greenlet(lambda *a: None)
                if pkind == "dead":
                    par.switch()
                greenlet.greenlet(self_entry, parent=par).switch()
            if "r" not in box:
                res.violation(kind="harness: entry function did not run", parent=pkind, interp=interp)
            else:
                judge("entry function extracts itself, parent %s" % pkind, 0, "self", box["r"][0], box["r"][1])
        for rep in range(spec["reps"]):
            def fn():
                return 1
            g = greenlet.greenlet(fn)
            s = extract(g)
            res.evaluations += 1
            res.count("lifecycle_cases")
            res.nontrivial("unstarted", rep)
            if s.frames or s.error is not None:
                res.violation(kind="unstarted greenlet: frames/error", frames=len(s.frames), error=repr(s.error), interp=interp)
            g.switch()
            s = extract(g)
            res.count("lifecycle_cases")
            res.nontrivial("dead", rep)
            if s.frames or s.error is not None:
                res.violation(kind="dead greenlet: frames/error", frames=len(s.frames), error=repr(s.error), interp=interp)
            # running in another thread
            ready = threading.Event()
            done = threading.Event()
            holder = {}

            def thread_fn():
                def target():
                    ready.set()
                    done.wait()
                holder["gr"] = greenlet.greenlet(target)
                holder["gr"].switch()

            th = threading.Thread(target=thread_fn)
            th.start()
            ready.wait(10)
            s = extract(holder["gr"])
            res.evaluations += 1
            res.count("lifecycle_cases")
            res.nontrivial("other-thread", rep)
            if s.frames or not isinstance(s.error, RuntimeError):
                res.violation(kind="greenlet running in another thread: expected an error and no frames",
                              frames=[f.funcname for f in s.frames], error=repr(s.error), interp=interp)
            done.set()
            th.join(10)
            # the *main* greenlet of another thread (running there, no child greenlet active)
            hold3 = {}
            ev3 = threading.Event()
            fin3 = threading.Event()

            def thread3():
                hold3["main"] = greenlet.getcurrent()
                ev3.set()
                fin3.wait()

            th3 = threading.Thread(target=thread3)
            th3.start()
            ev3.wait(10)

            def ask_from_child():
                hold3["from_child"] = extract(hold3["main"])

            s = extract(hold3["main"])
            greenlet.greenlet(ask_from_child).switch()
            res.evaluations += 2
            res.count("lifecycle_cases", 2)
            res.nontrivial("other-thread-main", rep)
            for who, st_ in (("main greenlet", s), ("child greenlet", hold3["from_child"])):
                if st_.frames or not isinstance(st_.error, RuntimeError):
                    res.violation(kind="main greenlet of another thread: expected an error and no frames",
                                  asked_from=who, frames=[f.funcname for f in st_.frames][:6], error=repr(st_.error),
                                  interp=interp)
            fin3.set()
            th3.join(10)
            # suspended greenlet of another (finished or living) thread: must not yield some other stack
            hold2 = {}
            ev2 = threading.Event()
            fin2 = threading.Event()

            def thread2():
                def t2():
                    greenlet.getcurrent().parent.switch()
                hold2["gr"] = greenlet.greenlet(t2)
                hold2["gr"].switch()
                hold2["walk"] = own_walk(hold2["gr"])
                ev2.set()
                fin2.wait()

            th2 = threading.Thread(target=thread2)
            th2.start()
            ev2.wait(10)
            s = extract(hold2["gr"])
            res.evaluations += 1
            res.count("lifecycle_cases")
            got = [f.pyframe for f in s.frames]
            if got and (len(got) != len(hold2["walk"]) or any(a is not b for a, b in zip(got, hold2["walk"]))):
                res.violation(kind="suspended greenlet of another thread: some other stack reported",
                              got=[f.f_code.co_name for f in got], interp=interp)
            fin2.set()
            th2.join(10)
            # history: a greenlet that was looked at while it was *running* in another thread (an error, above) and is
            # looked at again once it is merely suspended there - from its own thread and from this one.  A twin that
            # nobody looked at while it ran is the reference for the look from this thread.
            hold4 = {}
            running4 = threading.Event()
            looked4 = threading.Event()
            susp4 = threading.Event()
            fin4 = threading.Event()

            def thread4():
                def body(tag):
                    if tag == "watched":
                        running4.set()
                        looked4.wait(10)
                    greenlet.getcurrent().parent.switch()
                for tag in ("watched", "twin"):
                    hold4[tag] = greenlet.greenlet(body)
                    hold4[tag].switch(tag)
                    hold4[tag + "_walk"] = own_walk(hold4[tag])
                    hold4[tag + "_own_thread"] = extract(hold4[tag])
                susp4.set()
                fin4.wait(10)

            th4 = threading.Thread(target=thread4)
            th4.start()
            running4.wait(10)
            s_running = extract(hold4["watched"])
            looked4.set()
            susp4.wait(10)
            res.evaluations += 3
            res.count("lifecycle_cases", 3)
            res.count("suspended_after_being_seen_running_elsewhere")
            res.nontrivial("seen-running-then-suspended", rep)
            problems = []
            if s_running.frames or not isinstance(s_running.error, RuntimeError):
                problems.append("while running elsewhere: frames %r error %r" % ([f.funcname for f in s_running.frames],
                                                                                s_running.error))
            for tag in ("watched", "twin"):
                own = hold4.get(tag + "_own_thread")
                walk = hold4.get(tag + "_walk") or []
                if own is None or own.error is not None or len(own.frames) != len(walk) \
                        or any(a.pyframe is not b for a, b in zip(own.frames, walk)):
                    problems.append("%s, asked from its own thread while suspended: frames %r error %r" % (
                        tag, [f.funcname for f in own.frames] if own else None, own.error if own else None))
            from_here = dict((tag, extract(hold4[tag])) for tag in ("watched", "twin"))
            shape = dict((tag, ([f.pyframe.f_code for f in st_.frames], type(st_.error))) for tag, st_ in from_here.items())
            if shape["watched"] != shape["twin"]:
                problems.append("asked from another thread while suspended: the greenlet seen running earlier gives "
                                "%d frames / %s, its never-watched twin %d frames / %s" % (
                                    len(shape["watched"][0]), shape["watched"][1].__name__,
                                    len(shape["twin"][0]), shape["twin"][1].__name__))
            if problems:
                res.violation(kind="greenlet seen running in another thread, later suspended", problems=problems[:4],
                              interp=interp)
            fin4.set()
            th4.join(10)
        res.sample({"lifecycle": ["unstarted", "dead", "running in other thread", "suspended in other thread"]})
        return res

    # ---- greenback --------------------------------------------------------------------------
    import trio
    import greenback
    results = {}
    log = []

    def sync_lvl(k, depth):
        log.append(sys._getframe(0))
        return greenback.await_(async_lvl(k + 1, depth))

    async def async_lvl(k, depth):
        log.append(sys._getframe(0))
        if k >= depth:
            return await bottom()
        return sync_lvl(k, depth)

    async def bottom():
        log.append(sys._getframe(0))
        task = trio.lowlevel.current_task()
        results["inside"] = stackscope.extract(task.coro)
        results["inside-nocontexts"] = stackscope.extract(task.coro, with_contexts=False)

        def report():
            results["outside"] = stackscope.extract(task.coro)
            results["outside-nocontexts"] = stackscope.extract(task.coro, with_contexts=False)
            trio.lowlevel.reschedule(task)

        trio.lowlevel.current_trio_token().run_sync_soon(report)
        await trio.lowlevel.wait_task_rescheduled(lambda _: trio.lowlevel.Abort.FAILED)

    def sync_top(depth):
        log.append(sys._getframe(0))
        return greenback.await_(async_lvl(0, depth))

    async def main(depth, portal):
        log.append(sys._getframe(0))
        if portal == "ensure_portal":
            await greenback.ensure_portal()
            await async_lvl(0, depth)
        elif portal == "with_portal_run":
            await greenback.with_portal_run(async_lvl, 0, depth)
        elif portal == "with_portal_run_tree":
            await greenback.with_portal_run_tree(async_lvl, 0, depth)
        else:
            # the portal lives in a synchronous shim: the task's coroutine chain ends in a generator-based
            # coroutine whose greenlet holds everything inward
            await greenback.with_portal_run_sync(sync_top, depth)

    mine = {f.__code__ for f in (sync_lvl, async_lvl, bottom, main, sync_top)}
    API = ("greenback_shim", "with_portal_run", "with_portal_run_sync", "with_portal_run_tree")
    cases = [(d, p) for d in range(0, spec["max_depth"] + 1)
             for p in ("ensure_portal", "with_portal_run", "with_portal_run_sync", "with_portal_run_tree")]
    for depth, portal in cases:
        del log[:]
        results.clear()
        trio.run(main, depth, portal)
        res.count("portal_" + portal)
        for where in ("inside", "outside", "inside-nocontexts", "outside-nocontexts"):
            s = results[where]
            res.evaluations += 1
            res.count("greenback_extractions")
            if depth >= 1:
                res.nontrivial("greenback", depth, portal, where)
            problems = []
            if s.error is not None:
                problems.append("error %r" % (s.error,))
            got = [f.pyframe for f in s.frames if f.pyframe.f_code in mine]
            if len(got) != len(log) or any(a is not b for a, b in zip(got, log)):
                problems.append("harness frames differ: got %r expected %r" % (
                    [f.f_code.co_name for f in got], [f.f_code.co_name for f in log]))
            if any(f.hide for f in s.frames if f.pyframe.f_code in mine):
                problems.append("a harness frame is hidden")
            impl = [f for f in s.frames if (f.modname or "").split(".")[0] in ("greenback", "outcome", "greenlet")]
            shown = [f.funcname for f in impl if not f.hide]
            # the API functions the task itself called may show; the bridging machinery may not
            if [n for n in shown if n not in API] or shown.count("greenback_shim") > 1:
                problems.append("greenback internals visible: %r" % (shown,))
            # order: every visible frame sequence must alternate exactly as the log (already checked by identity)
            if problems:
                res.violation(kind="greenback-stack", depth=depth, portal=portal, where=where, problems=problems,
                              visible=[f.funcname for f in s.frames if not f.hide], interp=interp)
    # ---- resumed by an exception: an event loop that *throws* into its tasks (asyncio cancellation) makes
    # greenback forward the resumption through outcome.Error.send - one more piece of bridging machinery
    import asyncio

    def cancelled_case(depth):
        out = {}
        clog = []

        async def c_leaf(ev):
            clog.append(sys._getframe(0))
            out["inside"] = stackscope.extract(asyncio.current_task().get_coro())
            out["arrived"] = True
            await ev.wait()

        def c_sync(ev, k):
            clog.append(sys._getframe(0))
            if k > 0:
                return greenback.await_(c_async(ev, k - 1))
            return greenback.await_(c_leaf(ev))

        async def c_async(ev, k):
            clog.append(sys._getframe(0))
            return c_sync(ev, k)

        async def c_worker(ev):
            clog.append(sys._getframe(0))
            try:
                out["sleeping"] = True
                await asyncio.sleep(1000)
            except asyncio.CancelledError:
                c_sync(ev, depth)

        async def c_victim(ev):
            clog.append(sys._getframe(0))
            await greenback.ensure_portal()
            await c_worker(ev)

        async def c_main():
            ev = asyncio.Event()
            t = asyncio.ensure_future(c_victim(ev))
            for _ in range(10000):
                if out.get("sleeping"):
                    break
                await asyncio.sleep(0)
            await asyncio.sleep(0)
            t.cancel()
            for _ in range(10000):
                if out.get("arrived"):
                    break
                await asyncio.sleep(0)
            out["outside"] = stackscope.extract(t.get_coro())
            out["log"] = list(clog)
            ev.set()
            await t

        asyncio.run(c_main())
        return out, {f.__code__ for f in (c_leaf, c_sync, c_async, c_worker, c_victim)}

    for depth in range(0, min(spec["max_depth"], 6) + 1):
        out, cmine = cancelled_case(depth)
        res.count("greenback_resumed_by_throw")
        for where in ("inside", "outside"):
            s = out.get(where)
            res.evaluations += 1
            res.count("greenback_extractions")
            res.nontrivial("greenback-cancelled", depth, where)
            problems = []
            if s is None:
                problems.append("no extraction")
            else:
                if s.error is not None:
                    problems.append("error %r" % (s.error,))
                got = [f.pyframe for f in s.frames if f.pyframe.f_code in cmine]
                exp_log = out["log"]
                if len(got) != len(exp_log) or any(a is not b for a, b in zip(got, exp_log)):
                    problems.append("harness frames differ: got %r expected %r" % (
                        [f.f_code.co_name for f in got], [f.f_code.co_name for f in exp_log]))
                shown = [(f.modname, f.funcname) for f in s.frames if not f.hide
                         and (f.modname or "").split(".")[0] in ("greenback", "outcome", "greenlet")]
                if [x for x in shown if x[1] not in API]:
                    problems.append("bridging internals visible: %r" % (shown,))
            if problems:
                res.violation(kind="greenback-stack", depth=depth, portal="ensure_portal, resumed by throw", where=where,
                              problems=problems, visible=[f.funcname for f in (s.frames if s else []) if not f.hide],
                              interp=interp)
    res.sample({"greenback_depths": list(range(0, spec["max_depth"] + 1))})
    return res
