"""C05 - extract never raises: faults contained, reported in .error, outer frames kept.

Deciding method: fault enumeration.  For every scenario of a corpus a fault-free run records the
dynamic invocations of every hook boundary; then an InjectedFault (unique instance) is raised
instead of the k-th invocation of each boundary kind (all k; pairs sampled), and - source-free -
at the k-th executed line inside glue hooks / unwrap_stackslice / the low-level analysis
functions.  The oracle checks: extract returned a Stack; every fault that escaped every hook
boundary up to the Stack under construction is found by identity in that Stack's .error (alone or
inside an ExceptionGroup); frames outward of the failure are kept; the result formats.
A family of arbitrary non-stack objects is fed to extract as well.
"""
import sys

PROPERTY = "C05"
LEVEL = "fault_enumeration"
TECHNIQUE = ("runtime monitoring with fault injection: k-th-invocation faults at every hook boundary and line failpoints "
             "inside hooks/analysis code; oracle over the returned Stack's error tree")
RULE = ("scenarios: async chain with nested generator-based managers and exit stacks (suspended, and suspended inside a "
        "generator-based manager's exit - with and without a registered context-generator hook -, a hook that replaces "
        "the generator-based manager), blocked thread, suspended greenlet (3.12), custom stack items with user "
        "unwrap/elaborate/context-generator hooks, running extraction from nested calls. For each: a fault at the k-th "
        "dynamic invocation of unwrap_stackitem / yields_frames iterator step / contexts_active_in_frame / "
        "elaborate_context / unwrap_context / unwrap_context_generator / elaborate_frame for every k, sampled pairs "
        "k1<k2, and line failpoints. Plus arbitrary non-stack inputs. non-trivial = run in which the fault escaped its "
        "hook boundary; distinct by (interpreter, scenario, hook kind(s), k)")
ASSUMPTIONS = [
    "a line-level fault raised *inside* analysis or glue code may be handled there (fallback + warning); a fault raised "
    "*by* a hook must be retrievable from a Stack that is part of the result, also when stackscope's own glue or a nested "
    "extraction sits between the hook and the Stack under construction",
    "formatting is required only when repr of every involved object succeeds",
]
MIN_NONTRIVIAL = {"quick": 400, "thorough": 5000}
REQUIRED_COUNTERS = {"boundary_faults_escaped": {"quick": 300, "thorough": 2000},
                     "pair_faults": {"quick": 100, "thorough": 2000},
                     "pair_faults_UnhashableFault": {"quick": 20, "thorough": 400},
                     "pair_faults_EqualFault": {"quick": 20, "thorough": 400},
                     "line_faults_injected": {"quick": 300, "thorough": 10000},
                     "builtin_family_faults": {"quick": 1000, "thorough": 1000},
                     "arbitrary_inputs": {"quick": 40, "thorough": 40},
                     "fault_free_reruns_after_faults": {"quick": 1000, "thorough": 1000}}
SHARD_TIMEOUT = {"quick": 400, "thorough": 5400}
INTERPS = ["3.12", "3.11", "3.10", "3.9"]
SCENARIOS = ["async_chain", "async_chain_exiting", "hooked_exiting", "hook_replaces", "hook_prunes", "stack_children", "thread",
             "custom", "running", "greenlet"]


def plan(tier, seed):
    shards = []
    for interp in INTERPS:
        for sc in SCENARIOS:
            if sc == "greenlet" and interp != "3.12":
                continue
            shards.append({"interp": interp, "leg": "boundary", "scenario": sc, "seed": seed,
                           "pairs": (60 if sc not in ("hooked_exiting", "hook_replaces", "stack_children") else 1500)
                           if tier == "quick" else 100000,
                           "budget_s": 40 if tier == "quick" else 1500})
            shards.append({"interp": interp, "leg": "lines", "scenario": sc, "seed": seed,
                           "max_k": 150 if tier == "quick" else 100000, "budget_s": 40 if tier == "quick" else 1500})
        shards.append({"interp": interp, "leg": "inputs", "seed": seed})
    return shards


def all_error_stacks(stackscope, stack, out):
    def errs(e):
        if e is None:
            return []
        if hasattr(e, "exceptions"):
            return list(e.exceptions)
        return [e]

    out.append((stack, errs(stack.error)))
    for f in stack.frames:
        for c in f.contexts:
            _ctx(stackscope, c, out)


def _ctx(stackscope, c, out):
    if c.inner_stack is not None:
        all_error_stacks(stackscope, c.inner_stack, out)
    for ch in c.children:
        if isinstance(ch, stackscope.Context):
            _ctx(stackscope, ch, out)
        else:
            all_error_stacks(stackscope, ch, out)


def worker(spec):
    import collections
    import contextlib
    import io
    import random
    import threading
    import types
    import warnings
    from vlib.worker import Result
    from vlib import ctxwork, failpoints
    import stackscope
    from stackscope import _extract, _customization as cust, _glue, unwrap_stackitem, elaborate_frame, \
        unwrap_context_generator, yields_frames

    res = Result()
    interp = "%d.%d" % sys.version_info[:2]
    if spec["leg"] == "inputs":
        return inputs_leg(res, interp, stackscope)
    budget = ctxwork.Budget(spec.get("budget_s", 60))
    rng = random.Random(spec["seed"] * 7 + 1)
    InjectedFault = failpoints.InjectedFault

    class EqualFault(InjectedFault):
        """all instances compare (and hash) equal"""

        def __eq__(self, other):
            return isinstance(other, EqualFault)

        def __hash__(self):
            return 17

    class UnhashableFault(InjectedFault):
        """value semantics like a plain @dataclass exception: __eq__ without __hash__"""

        def __eq__(self, other):
            return isinstance(other, UnhashableFault) and self.args == other.args

        __hash__ = None

    class HostileFault(InjectedFault):
        def __eq__(self, other):
            raise RuntimeError("__eq__ called on a recorded error")

        def __hash__(self):
            raise RuntimeError("__hash__ called on a recorded error")

    # faults that are also instances of the builtin families library code is most likely to catch for
    # reasons of its own ("no frames" RuntimeError, getattr/hasattr AttributeError, TypeError probes, lookups)
    class RuntimeFault(InjectedFault, RuntimeError):
        pass

    class TypeFault(InjectedFault, TypeError):
        pass

    class AttrFault(InjectedFault, AttributeError):
        pass

    class LookupFault(InjectedFault, KeyError):
        pass

    class ValueFault(InjectedFault, ValueError):
        pass

    FAULT_CLASSES = [InjectedFault, EqualFault, UnhashableFault, HostileFault, InjectedFault]
    BUILTIN_FAMILY_FAULTS = [RuntimeFault, TypeFault, AttrFault, LookupFault, ValueFault]

    # make sure every glue is installed and trickery is detected before anything is patched
    stackscope.extract_since(None)

    # ------------------------------------------------------------------------------------------
    # instrumentation: boundary wrappers through module globals / public registries
    ST = {"targets": {}, "counts": collections.Counter(), "scopes": [], "faults": [], "next_scope": 0,
          "child_result": {}, "constructed": {}}

    def open_scope(kind, name):
        ST["next_scope"] += 1
        sc = {"id": ST["next_scope"], "kind": kind, "name": name, "passed": []}
        ST["scopes"].append(sc)
        return sc

    def wrap_boundary(name, orig):
        def w(*a, **k):
            ST["counts"][name] += 1
            key = (name, ST["counts"][name])
            sc = open_scope("boundary", name)
            try:
                if key in ST["targets"]:
                    ex = ST["targets"][key]
                    note_fault(ex, key)
                    raise ex
                return orig(*a, **k)
            except BaseException as ex:
                sc["passed"].append(ex)
                raise
            finally:
                ST["scopes"].remove(sc)
        for attr in ("register", "dispatch", "registry", "_clear_cache"):
            if hasattr(orig, attr):
                setattr(w, attr, getattr(orig, attr))
        w.__wrapped_orig__ = orig
        return w

    def note_fault(ex, key):
        # which Stack is under construction, how many frames it has emitted, what was constructed
        child = None
        for sc in reversed(ST["scopes"]):
            if sc["kind"] == "child":
                child = sc
                break
        emitted = None
        f = sys._getframe(1)
        while f is not None:
            if f.f_code is orig_child_code:
                # innermost real extract_child activation = the Stack under construction
                emitted = len(f.f_locals.get("frames", ()))
                break
            f = f.f_back
        ST["faults"].append({"ex": ex, "key": key, "scopes": list(ST["scopes"]), "child": child, "emitted": emitted,
                             "constructed": list(ST["constructed"].get(child["id"], [])) if child else []})

    names = ("unwrap_stackitem", "elaborate_frame", "contexts_active_in_frame", "elaborate_context", "unwrap_context")
    orig = {n: getattr(_extract, n) for n in names}
    for n, o in orig.items():
        setattr(_extract, n, wrap_boundary(n, o))
    orig_ucg = _glue.unwrap_context_generator
    _glue.unwrap_context_generator = wrap_boundary("unwrap_context_generator", orig_ucg)
    orig_next = cust.FrameIterator.__next__
    cust.FrameIterator.__next__ = wrap_boundary("frameiterator_next", orig_next)

    orig_child = _extract.extract_child
    orig_child_code = orig_child.__code__

    def child(stackitem, *, for_task):
        sc = open_scope("child", "extract_child")
        try:
            r = orig_child(stackitem, for_task=for_task)
            ST["child_result"][sc["id"]] = r
            return r
        except BaseException as ex:
            sc["passed"].append(ex)
            raise
        finally:
            ST["scopes"].remove(sc)

    _extract.extract_child = child

    orig_outermost = _extract.extract_outermost

    def outermost(*a, **k):
        sc = open_scope("outermost", "extract_outermost")
        try:
            return orig_outermost(*a, **k)
        except BaseException as ex:
            sc["passed"].append(ex)
            raise
        finally:
            ST["scopes"].remove(sc)

    _extract.extract_outermost = outermost

    RealFrame = _extract.Frame

    class TracingFrame(RealFrame):
        def __post_init__(self):
            RealFrame.__post_init__(self)
            for sc in reversed(ST["scopes"]):
                if sc["kind"] == "child":
                    ST["constructed"].setdefault(sc["id"], []).append(self.pyframe)
                    break

    _extract.Frame = TracingFrame

    # ------------------------------------------------------------------------------------------
    # scenarios
    @types.coroutine
    def sus(v):
        return (yield v)

    def cb(*a):
        pass

    @contextlib.contextmanager
    def inner_cm():
        with contextlib.ExitStack() as st:
            st.enter_context(contextlib.nullcontext())
            st.callback(cb, 1)
            yield

    @contextlib.asynccontextmanager
    async def outer_acm():
        with inner_cm():
            yield

    @contextlib.asynccontextmanager
    async def exiting_acm():
        try:
            yield
        finally:
            with inner_cm():
                await sus("in-exit")

    @contextlib.asynccontextmanager
    async def hooked_exiting_acm():
        # registered with unwrap_context_generator *and* observed while exiting: the glue has to find
        # the generator's frame by a nested extraction of its own
        try:
            with contextlib.nullcontext():
                yield
        finally:
            with inner_cm():
                await sus("in-hooked-exit")

    @unwrap_context_generator.register(hooked_exiting_acm)
    def _hooked_exit(frame, context):
        return None

    class Repl(object):
        def __enter__(self):
            return self

        def __exit__(self, *a):
            return False

    @contextlib.contextmanager
    def replaced_cm():
        # its hook replaces the generator-based manager by the manager it holds open (what the
        # pytest-trio glue does): the inner stack extracted for it is then dropped
        with Repl():
            with inner_cm():
                yield

    @unwrap_context_generator.register(replaced_cm)
    def _replace(frame, context):
        return frame.contexts[0].obj if frame.contexts else None

    class PlainCM(object):
        def __enter__(self):
            return self

        def __exit__(self, *a):
            return False

    @contextlib.contextmanager
    def stack_of_two():
        # an exit stack whose first entry is generator-based (its inner stack can record a fault) and whose
        # later entries are filled after it: a failure while filling a later entry must not take the earlier
        # entries - and what was recorded on them - away
        with contextlib.ExitStack() as st:
            st.enter_context(inner_cm())
            st.enter_context(PlainCM())
            st.enter_context(replaced_cm())
            st.enter_context(PlainCM())
            yield

    async def lvl_stack_children():
        with stack_of_two():
            await sus(3)

    @contextlib.contextmanager
    def pruned_cm():
        # its hook hides the manager (PRUNE): what was recorded on its inner stack must stay retrievable
        with Repl():
            with inner_cm():
                yield

    @unwrap_context_generator.register(pruned_cm)
    def _prune(frame, context):
        return stackscope.PRUNE

    async def lvl_pruned():
        with inner_cm(), pruned_cm():
            with pruned_cm():
                await sus(4)

    async def lvl_hooked_exit():
        with inner_cm():
            async with hooked_exiting_acm():
                pass

    async def lvl_replaced():
        with replaced_cm():
            with inner_cm(), replaced_cm():
                await sus(2)

    @contextlib.contextmanager
    def hooked_cm():
        with contextlib.nullcontext():
            yield

    @unwrap_context_generator.register(hooked_cm)
    def _hooked(frame, context):
        return None

    async def lvl2():
        async with outer_acm() as o:  # noqa
            with inner_cm() as i, hooked_cm():  # noqa
                await sus(1)

    async def lvl1():
        with inner_cm():
            await lvl2()

    async def lvl_exit():
        with hooked_cm():
            async with exiting_acm():
                pass

    class Item(object):
        def __init__(self, kids):
            self.kids = kids

    @unwrap_stackitem.register(Item)
    @yields_frames
    def _unwrap_item(it):
        for k in it.kids:
            yield k

    def g_plain():
        with inner_cm():
            yield 1

    def g_insert():
        yield 2

    def g_none():
        with hooked_cm():
            yield 3

    side = []

    @elaborate_frame.register(g_insert)
    def _el_insert(frame, nxt):
        return (side[0], nxt)

    @elaborate_frame.register(g_none)
    def _el_none(frame, nxt):
        frame.hide = True
        return None

    def scenario(name):
        """returns (thunk performing the extraction, cleanup)"""
        if name == "async_chain":
            co = lvl1()
            co.send(None)
            return (lambda: stackscope.extract(co)), co.close
        if name == "async_chain_exiting":
            co = lvl_exit()
            co.send(None)
            return (lambda: stackscope.extract(co)), co.close
        if name == "hooked_exiting":
            co = lvl_hooked_exit()
            co.send(None)
            return (lambda: stackscope.extract(co)), co.close
        if name == "stack_children":
            co = lvl_stack_children()
            co.send(None)
            return (lambda: stackscope.extract(co)), co.close
        if name == "hook_prunes":
            co = lvl_pruned()
            co.send(None)
            return (lambda: stackscope.extract(co)), co.close
        if name == "hook_replaces":
            co = lvl_replaced()
            co.send(None)
            return (lambda: stackscope.extract(co)), co.close
        if name == "thread":
            lock = threading.Lock()
            lock.acquire()
            ready = threading.Event()

            def body():
                with inner_cm(), hooked_cm():
                    ready.set()
                    lock.acquire()

            th = threading.Thread(target=body, daemon=True)
            th.start()
            ready.wait(10)
            import time
            for _ in range(500):
                fr = sys._current_frames().get(th.ident)
                if fr is not None and fr.f_code.co_name == "body" and fr.f_lasti > 0:
                    time.sleep(0.01)
                    break
                time.sleep(0.001)

            def cleanup():
                lock.release()
                th.join(10)

            return (lambda: stackscope.extract(th)), cleanup
        if name == "custom":
            gens = [g_plain(), g_insert(), g_none(), g_plain()]
            for g in gens:
                next(g)
            extra = g_plain()
            next(extra)
            del side[:]
            side.append(extra)
            item = Item([gens[0], Item([gens[1], gens[2]]), gens[3]])

            def cleanup():
                for g in gens + [extra]:
                    g.close()

            return (lambda: stackscope.extract(item)), cleanup
        if name == "running":
            def level3():
                with hooked_cm():
                    return stackscope.extract_since(root_frame[0])

            def level2():
                with inner_cm():
                    return level3()

            def level1():
                root_frame[0] = sys._getframe(0)
                return level2()

            root_frame = [None]
            return level1, (lambda: None)
        if name == "greenlet":
            import greenlet

            def gl_body():
                with inner_cm():
                    main.switch()

            main = greenlet.getcurrent()
            gl = greenlet.greenlet(gl_body)
            gl.switch()

            def cleanup():
                try:
                    gl.throw(greenlet.GreenletExit)
                except BaseException:
                    pass

            return (lambda: stackscope.extract(gl)), cleanup
        raise AssertionError(name)

    def reset(targets):
        ST["targets"] = targets
        ST["counts"].clear()
        del ST["scopes"][:]
        del ST["faults"][:]
        ST["child_result"].clear()
        ST["constructed"].clear()

    def run_once(thunk, targets):
        reset(targets)
        olderr = sys.stderr
        sys.stderr = io.StringIO()
        try:
            with warnings.catch_warnings():
                warnings.simplefilter("ignore")
                try:
                    return thunk(), None
                except BaseException as ex:
                    return None, ex
        finally:
            sys.stderr = olderr

    def judge(sc_name, label, s, raised, base_frames, nontrivial_key):
        res.evaluations += 1
        problems = []
        mech = set()
        if raised is not None:
            problems.append("extract raised %r" % (raised,))
        elif not isinstance(s, stackscope.Stack):
            problems.append("extract returned %r" % (type(s),))
        else:
            found_any_escape = False
            for fl in ST["faults"]:
                ex = fl["ex"]
                childsc = fl["child"]
                if childsc is None:
                    continue
                # did the fault propagate out of every scope opened after that extract_child?
                idx = fl["scopes"].index(childsc)
                later = fl["scopes"][idx + 1:]
                escaped = all(any(p is ex for p in sc["passed"]) for sc in later)
                if not escaped:
                    if fl["key"][0] == "line":
                        # a fault *inside* analysis/glue code may be handled there (fallback, warning)
                        res.count("faults_swallowed_inside_a_hook")
                        continue
                    # a fault raised *by* a hook (none of the scenarios' own hooks catches anything) that
                    # stackscope's own code swallowed on the way out: it must still be retrievable
                    res.count("boundary_faults_swallowed_on_the_way")
                    reach = []
                    all_error_stacks(stackscope, s, reach)
                    if not any(x is ex for _, el in reach for x in el):
                        swallower = [sc["name"] for sc in later if not any(p is ex for p in sc["passed"])]
                        problems.append("fault %r (%s) was swallowed by %s and is in no Stack's .error" % (
                            fl["key"], type(ex).__name__, swallower[-1] if swallower else "?"))
                        mech.add("swallowed:" + (swallower[-1] if swallower else "?"))
                    found_any_escape = True
                    continue
                found_any_escape = True
                target_stack = ST["child_result"].get(childsc["id"])
                if target_stack is None:
                    problems.append("the Stack under construction when %r was injected was never returned" % (fl["key"],))
                    continue
                errs = []
                e = target_stack.error
                if e is not None:
                    errs = list(e.exceptions) if hasattr(e, "exceptions") else [e]
                reach = []
                all_error_stacks(stackscope, s, reach)
                if not any(st is target_stack for st, _ in reach):
                    # the Stack that was being built has been dropped from the result: the fault must
                    # then be retrievable from a Stack that *is* part of the result
                    res.count("faults_on_dropped_stacks")
                    if not any(x is ex for _, el in reach for x in el):
                        problems.append("fault %r (%s) is recorded only on a Stack that is not part of the result" % (
                            fl["key"], type(ex).__name__))
                        mech.add("dropped-stack")
                elif not any(x is ex for x in errs):
                    problems.append("fault %r escaped its hook but is not in .error of the Stack being built (%r)" % (
                        fl["key"], target_stack.error))
                elif len(errs) == 1 and hasattr(e, "exceptions"):
                    problems.append("single error wrapped in an ExceptionGroup")
                # outward frames kept (judged on the outermost Stack only: its fault-free frames are known)
                if target_stack is s and base_frames is not None:
                    if sc_name == "running":
                        # frames are created anew by every run: compare code objects, and only the
                        # scenario's own functions (what lies inward is instrumentation)
                        own = ("level1", "level2", "level3")
                        key_of = lambda f: f.f_code
                        base_k = [f.f_code for f in base_frames if f.f_code.co_name in own]
                        got = [f.pyframe.f_code for f in s.frames if f.pyframe.f_code.co_name in own]
                        constructed = [f.f_code for f in fl["constructed"] if f.f_code.co_name in own]
                    else:
                        base_k = list(base_frames)
                        got = [f.pyframe for f in s.frames]
                        constructed = list(fl["constructed"])
                    # was the fault raised while an item was being *unwrapped* (the frame it would have
                    # produced does not exist yet) or while an existing frame was being elaborated?
                    inner_boundary = [sc["name"] for sc in fl["scopes"] if sc["kind"] == "boundary"]
                    unwrap_type = fl["key"][0] in ("unwrap_stackitem", "frameiterator_next") or (
                        fl["key"][0] == "line" and (not inner_boundary or inner_boundary[-1] in (
                            "unwrap_stackitem", "frameiterator_next")))
                    if unwrap_type and not fl["emitted"]:
                        # unwrap phase: frames already constructed to the left of the failing call (and
                        # present in the fault-free result) must still be there, in order; the last one
                        # is excused because its next_inner changed
                        want = [f for f in constructed if any(f is b for b in base_k)][:-1]
                        it = iter(got)
                        ok = all(any(g is w for g in it) for w in want)
                    else:
                        k = fl["emitted"] or 0
                        n = k + (0 if unwrap_type else 1)
                        want = base_k[:n]
                        ok = len(got) >= len(want) and all(a is b for a, b in zip(got, want))
                    if not ok:
                        problems.append("frames outward of the failure not kept: have %r, need %r" % (
                            [getattr(f, "f_code", f).co_name for f in got], [getattr(f, "f_code", f).co_name for f in want]))
            if found_any_escape:
                res.count("boundary_faults_escaped" if label[0] != "line" else "line_faults_escaped")
                res.nontrivial(interp, sc_name, nontrivial_key)
            try:
                str(s)
                s.format_flat()
                s.as_stdlib_summary(show_contexts=True)
                "".join(s.format(ascii_only=True, show_hidden_frames=True))
            except Exception as ex:
                problems.append("formatting the result raised %r" % (ex,))
        if problems:
            res.violation(kind="fault containment", scenario=sc_name, fault=repr(label), problems=problems[:3],
                          interp=interp, mechanisms=sorted(mech))

    def rerun_fault_free(after):
        """history: the faults of earlier extractions belong to those extractions.  The same scenario extracted
        again with no fault injected must come out as it did the first time."""
        s, raised = run_once(thunk, {})
        res.count("fault_free_reruns_after_faults")
        # (the "running" scenario extracts the calling stack, which contains this function's frames: only the
        # absence of errors is comparable there)
        same = sc_name == "running" or (raised is None and [f.pyframe for f in s.frames] == base_frames)
        if raised is not None or s.error is not None or not same:
            if not ST.get("stale_reported"):
                ST["stale_reported"] = True
                res.violation(kind="an earlier extraction's fault shows in a later fault-free extraction",
                              scenario=sc_name, after=repr(after), raised=repr(raised),
                              error=repr(getattr(s, "error", None)),
                              frames_equal=same, interp=interp)

    sc_name = spec["scenario"]
    thunk, cleanup = scenario(sc_name)
    try:
        s0, raised0 = run_once(thunk, {})
        if raised0 is not None or s0.error is not None:
            res.violation(kind="fault-free run failed", scenario=sc_name, error=repr(raised0 or s0.error), interp=interp)
            return res
        base = dict(ST["counts"])
        base_frames = [f.pyframe for f in s0.frames]
        res.sample({"scenario": sc_name, "fault_free_boundary_counts": base,
                    "frames": [f.funcname for f in s0.frames]})
        if spec["leg"] == "boundary":
            keys = [(n, k) for n, cnt in sorted(base.items()) for k in range(1, cnt + 1)]
            for nkey, key in enumerate(keys):
                s, raised = run_once(thunk, {key: FAULT_CLASSES[nkey % len(FAULT_CLASSES)](repr(key))})
                res.count("boundary_faults_injected")
                res.count("kind_" + key[0])
                judge(sc_name, key, s, raised, base_frames, key)
                for cls in BUILTIN_FAMILY_FAULTS:
                    s, raised = run_once(thunk, {key: cls(repr(key))})
                    res.count("boundary_faults_injected")
                    res.count("builtin_family_faults")
                    judge(sc_name, key, s, raised, base_frames, key + (cls.__name__,))
                rerun_fault_free(key)
            pairs = [(a, b) for i, a in enumerate(keys) for b in keys[i + 1:]]
            rng.shuffle(pairs)
            npair = 0
            for a, b in pairs[: spec["pairs"]]:
                if budget.over():
                    res.count("budget_cut")
                    break
                # faults raised by real hooks are arbitrary user exceptions: value-semantics ones
                # (equal / unhashable / hostile __eq__ and __hash__) must be handled like any other
                npair += 1
                cls = FAULT_CLASSES[npair % len(FAULT_CLASSES)]
                res.count("pair_faults_" + cls.__name__)
                s, raised = run_once(thunk, {a: cls(repr(a)), b: cls(repr(b))})
                res.count("pair_faults")
                if len(ST["faults"]) == 2:
                    res.count("pair_faults_both_reached")
                judge(sc_name, (a, b), s, raised, None, (a, b))
                if npair % 8 == 0:
                    rerun_fault_free((a, b))
        else:
            # line failpoints inside glue hooks, unwrap_stackslice and the low-level analysis code
            from stackscope import _lowlevel as LL
            funcs = [LL._contexts_active_by_trickery, LL._contexts_active_by_referents, LL.analyze_with_blocks,
                     LL.currently_exiting_context, LL.describe_assignment_target, LL.contexts_active_in_frame]
            if sys.version_info >= (3, 11):
                from stackscope import _lowlevel_cpython_311 as impl
                funcs += [LL._parse_exception_table]
            else:
                from stackscope import _lowlevel_cpython_310 as impl
            funcs.append(impl.inspect_frame)
            codes = failpoints.codes_of(*funcs)
            hookfuncs = [_glue.unwrap_stackslice]
            for reg in (unwrap_stackitem.registry, cust.elaborate_context.registry, cust.unwrap_context.registry):
                hookfuncs += [f for f in reg.values() if getattr(f, "__module__", "") == "stackscope._glue"]
            for reg in (elaborate_frame.registry, unwrap_context_generator.registry):
                hookfuncs += [f for f in reg.values() if getattr(f, "__module__", "") == "stackscope._glue"]
            codes += failpoints.codes_of(*hookfuncs)
            fp = failpoints.LineFailpoints(codes)
            holder = {}

            def traced(k, fault):
                reset({})
                olderr = sys.stderr
                sys.stderr = io.StringIO()
                try:
                    with warnings.catch_warnings():
                        warnings.simplefilter("ignore")
                        out, raised, n = fp.call(thunk, k, fault)
                finally:
                    sys.stderr = olderr
                return out, raised, n

            _, raised, n = traced(None, None)
            res.count("line_events_in_fault_free_run", n)
            ks = list(range(1, n + 1))
            if len(ks) > spec["max_k"]:
                ks = sorted(rng.sample(ks, spec["max_k"]))
            for k in ks:
                if budget.over():
                    res.count("budget_cut")
                    break
                if not failpoints.injection_budget_left():
                    res.count("settrace_injection_budget_reached")
                    break
                fault = InjectedFault("line %d" % k)
                # faults raised by the failpoint are not created by a boundary wrapper: register on the fly
                orig_note = ST.get("line_fault")
                out, raised, _ = traced_with_fault(fp, thunk, k, fault, ST, note_fault, reset, io, warnings)
                res.count("line_faults_injected")
                if fp.fired:
                    res.count("line_faults_fired")
                judge(sc_name, ("line", k, fp.fired_at), out, raised, base_frames, ("line", k))
                if fp.fired and res.counters.get("line_faults_fired", 0) % 16 == 0:
                    rerun_fault_free(("line", k))
    finally:
        cleanup()
    return res


def traced_with_fault(fp, thunk, k, fault, ST, note_fault, reset, io, warnings):
    """line failpoint run in which the moment of injection is recorded like a boundary fault"""
    reset({})
    orig_mon = fp._mon_line
    orig_loc = fp._loc

    class Hook(Exception):
        pass

    # wrap the raise: record scopes at the time the failpoint fires
    def gate():
        return True

    fp.gate = gate
    real_exc = fault

    class Noting(object):
        pass

    def mon_line(code, lineno):
        fp.count += 1
        if fp.target is not None and fp.count == fp.target and not fp.fired:
            fp.fired = True
            fp.fired_at = (code.co_name, lineno)
            note_fault(real_exc, ("line", k))
            raise real_exc
        return None

    def loc(frame, event, arg):
        if event == "exception" and arg and arg[0] is GeneratorExit:
            fp._closing = frame
        elif event == "line":
            fp.count += 1
            if fp.target is not None and fp.count == fp.target and not fp.fired:
                if getattr(fp, "_closing", None) is frame:
                    # a generator being finalised is not a fault site before 3.12 (see vlib/failpoints.py)
                    from vlib import failpoints as _fpmod
                    _fpmod.SKIPPED_IN_GENERATOR_CLOSE[0] += 1
                    fp.target = None
                    return loc
                fp.fired = True
                fp.fired_at = (frame.f_code.co_name, frame.f_lineno)
                note_fault(real_exc, ("line", k))
                from vlib import failpoints as _fpmod
                _fpmod.RAISED_FROM_TRACE_FUNCTION[0] += 1
                raise real_exc
        return loc

    fp._mon_line = mon_line
    fp._loc = loc
    olderr = sys.stderr
    sys.stderr = io.StringIO()
    try:
        with warnings.catch_warnings():
            warnings.simplefilter("ignore")
            out, raised, n = fp.call(thunk, k, fault)
    finally:
        sys.stderr = olderr
        fp._mon_line = orig_mon
        fp._loc = orig_loc
    return out, raised, n


def inputs_leg(res, interp, stackscope):
    import types

    class RaisingClass(object):
        @property
        def __class__(self):
            raise ValueError("no class for you")

    class LyingClass(object):
        @property
        def __class__(self):
            return int

    class BadRepr(object):
        def __repr__(self):
            raise ValueError("no repr")

    class BadBool(object):
        def __bool__(self):
            raise ValueError("no bool")

    class Slots(object):
        __slots__ = ()

    class BadGetattr(object):
        def __getattr__(self, n):
            raise ValueError(n)

    class BadEq(object):
        def __eq__(self, o):
            raise ValueError("eq")

        __hash__ = None

    class BadLen(object):
        def __len__(self):
            raise ValueError("len")

    class FakeSeq(list):
        def __reversed__(self):
            raise ValueError("reversed")

    def gen():
        yield 1

    exhausted = gen()
    list(exhausted)
    objs = [
        ("None", None, True), ("int", 0, True), ("str", "s", True), ("bytes", b"b", True), ("float", 3.5, True),
        ("tuple", (), True), ("list", [], True), ("dict", {}, True), ("set", set(), True), ("object", object(), True),
        ("type", int, True), ("module", sys, True), ("builtin", len, True), ("lambda", (lambda: 0), True),
        ("raising __class__", RaisingClass(), False), ("lying __class__", LyingClass(), True),
        ("raising __repr__", BadRepr(), False), ("raising __bool__", BadBool(), True), ("slots", Slots(), True),
        ("raising __getattr__", BadGetattr(), True), ("raising __eq__", BadEq(), True),
        ("raising __len__", BadLen(), True), ("namespace", types.SimpleNamespace(), True), ("iterator", iter([]), True),
        ("fresh generator", (x for x in []), True), ("exhausted generator", exhausted, True),
        ("exception", Exception("x"), True), ("NotImplemented", NotImplemented, True), ("Ellipsis", Ellipsis, True),
        ("frame", sys._getframe(0), True), ("code", sys._getframe(0).f_code, True),
        ("StackSlice(limit=0)", stackscope.StackSlice(limit=0), True),
        ("StackSlice(limit=-1)", stackscope.StackSlice(limit=-1), True),
        ("StackSlice(outer=5)", stackscope.StackSlice(outer=5), True),
        ("StackSlice(inner='x')", stackscope.StackSlice(inner="x"), True),
        ("StackSlice(limit='x')", stackscope.StackSlice(limit="x"), True),
        ("StackSlice(outer=frame, inner=unrelated frame)",
         stackscope.StackSlice(outer=sys._getframe(0), inner=exhausted.gi_frame), True),
        ("nested lists of junk", [[None, 1, ["x"]], (2, [])], True),
        ("list with reversed raising", FakeSeq([1, 2]), True),
        ("Stack object", stackscope.Stack(root=None, frames=[]), True),
        ("Frame object", stackscope.Frame(pyframe=sys._getframe(0)), True),
        ("Context object", stackscope.Context(obj=None, is_async=False), True),
    ]
    for name, o, can_format in objs:
        res.evaluations += 1
        res.count("arbitrary_inputs")
        res.nontrivial(interp, "input", name)
        try:
            import warnings
            with warnings.catch_warnings():
                warnings.simplefilter("ignore")
                s = stackscope.extract(o)
        except BaseException as ex:
            mech = None
            if name == "raising __class__":
                mech = "raising-__class__"
            res.violation(kind="extract raised on arbitrary input", input=name, error=repr(ex)[:200], interp=interp,
                          mechanism=mech)
            continue
        if not isinstance(s, stackscope.Stack):
            res.violation(kind="extract returned a non-Stack", input=name, interp=interp)
            continue
        if can_format:
            try:
                str(s)
                "".join(s.format_flat())
                s.as_stdlib_summary(show_contexts=True)
            except Exception as ex:
                res.violation(kind="result for arbitrary input cannot be formatted", input=name, error=repr(ex)[:200],
                              interp=interp)
    res.sample({"inputs": [n for n, _, _ in objs]})
    return res
