"""C12 - customizations bind to exactly the code that runs; every customize option works.

Deciding method: execution as the oracle.  The base function of a generated wrapper tower records
sys._getframe().f_code when the tower is *called*; get_code(tower) must be that object.  Nested
name paths are checked the same way (the inner function is really created and called).  Identity
dispatch is observed on frames of equal-but-distinct code objects.  Every customize flag
combination is observed on Frame.hide / Frame.hide_line / callee presence.  IdentityDict runs
random operation sequences against a model keyed by id(), under an icontract invariant.
"""
import sys
import warnings

PROPERTY = "C12"
LEVEL = "exploration"
TECHNIQUE = "runtime monitoring: execution oracle for get_code, frame observation for dispatch/customize, model + icontract invariant for IdentityDict"
RULE = ("wrapper towers of depth 0..6 over {partial, functools.wraps wrapper, bound method, classmethod, staticmethod, "
        "class attribute access}; nested-name paths of depth 1..4 through generated nestings of functions and classes; "
        "pairs of equal-but-distinct code objects with registrations on one of them and re-registration; all 2^3 "
        "customize flag combinations x {no elaborate, returns None, returns replacement} x {direct, decorator}; "
        "IdentityDict under random operation sequences with equal-but-distinct and unhashable keys. non-trivial = "
        "tower depth >= 1 / path depth >= 2 / any customize combination / dict sequence with >= 1 colliding key; "
        "distinct by the case text")
ASSUMPTIONS = ["icontract invariant is evaluated single-threaded at method entry/exit"]
MIN_NONTRIVIAL = {"quick": 3000, "thorough": 20000}
REQUIRED_COUNTERS = {"towers": {"quick": 3000, "thorough": 60000},
                     "nested_paths": {"quick": 1000, "thorough": 20000},
                     "customize_combinations": {"quick": 80, "thorough": 80},
                     "identity_pairs": {"quick": 200, "thorough": 2000},
                     "identitydict_ops": {"quick": 20000, "thorough": 400000},
                     "non_function_wrappers": {"quick": 1000, "thorough": 20000},
                     "nest_same_name_deeper_in_earlier_sibling": {"quick": 300, "thorough": 6000},
                     "late_customizations": {"quick": 100, "thorough": 400},
                     "stacked_registrations": {"quick": 50, "thorough": 200},
                     "lifecycle_moments": {"quick": 500, "thorough": 2000}}
SHARD_TIMEOUT = {"quick": 400, "thorough": 5400}
INTERPS = ["3.12", "3.11", "3.10", "3.9"]


def plan(tier, seed):
    shards = []
    for interp in INTERPS:
        for s in range(4 if interp == "3.12" else 1):
            shards.append({"interp": interp, "seed": seed * 100 + s, "scale": 10 if tier == "quick" else 150,
                           "budget_s": 40 if tier == "quick" else 1500})
    return shards


def worker(spec):
    import functools
    import random
    import types
    from vlib.worker import Result
    from vlib import ctxwork
    import stackscope
    from stackscope import customize, extract_since, elaborate_frame, unwrap_context_generator, PRUNE
    from stackscope.lowlevel import get_code, IdentityDict

    res = Result()
    interp = "%d.%d" % sys.version_info[:2]
    budget = ctxwork.Budget(spec.get("budget_s", 60))
    rng = random.Random(spec["seed"])
    scale = spec["scale"]

    # ---- towers ---------------------------------------------------------------------------------
    for case in range(1500 * scale):
        if budget.over():
            break
        ran = []

        def base(*a, **k):
            ran.append(sys._getframe(0).f_code)
            return 1

        base = types.FunctionType(base.__code__.replace(co_name="base%d" % case), globals(), "base%d" % case, None,
                                  base.__closure__)
        thing = base
        callable_thing = base
        desc = ["base"]
        for d in range(rng.randint(0, 6)):
            k = rng.choice(["partial", "wraps", "method", "classmethod", "staticmethod", "boundmethod", "wraps2",
                            "named_partial", "lru_cache", "class_wrapper"])
            inner = callable_thing
            if k == "partial":
                thing = functools.partial(inner, *([1] if rng.random() < 0.3 else []))
                callable_thing = thing
            elif k == "named_partial":
                # a partial dressed up with functools.update_wrapper: its __wrapped__ names either what it
                # really calls or (to borrow a public name/docstring) some other function
                def public_stub(*a, **kw):
                    raise AssertionError("the stub never runs")
                dressed = inner if rng.random() < 0.5 else public_stub
                try:
                    thing = functools.update_wrapper(functools.partial(inner), dressed)
                except AttributeError:
                    continue
                callable_thing = thing
            elif k in ("wraps", "wraps2"):
                def mkw(inner):
                    @functools.wraps(inner)
                    def wrapper(*a, **kw):
                        return inner(*a, **kw)
                    return wrapper
                if not hasattr(inner, "__name__") and not hasattr(inner, "__wrapped__"):
                    # functools.wraps tolerates missing attributes (partial objects)
                    pass
                thing = mkw(inner)
                callable_thing = thing
            elif k == "lru_cache":
                # a functools.wraps-style wrapper that is not a Python function (a C object with __wrapped__)
                try:
                    thing = functools.lru_cache(maxsize=None)(inner)
                except TypeError:
                    continue
                callable_thing = thing
                res.count("non_function_wrappers")
            elif k == "class_wrapper":
                # class-based decorator that calls functools.update_wrapper(self, fn)
                class Deco(object):
                    def __init__(self, fn):
                        self.fn = fn
                        try:
                            functools.update_wrapper(self, fn)
                        except AttributeError:
                            pass
                        self.__wrapped__ = fn

                    def __call__(self, *a, **kw):
                        return self.fn(*a, **kw)
                thing = Deco(inner)
                callable_thing = thing
                res.count("non_function_wrappers")
            elif k == "method":
                if isinstance(inner, types.FunctionType):
                    class C(object):
                        pass
                    thing = types.MethodType(inner, C())
                    callable_thing = thing
                else:
                    continue
            elif k == "boundmethod":
                if isinstance(inner, types.FunctionType):
                    class D(object):
                        f = inner
                    thing = D().f
                    callable_thing = thing
                else:
                    continue
            elif k == "classmethod":
                if isinstance(inner, types.FunctionType):
                    cm = classmethod(inner)

                    class E(object):
                        f = cm
                    thing = cm if rng.random() < 0.5 else E.f
                    callable_thing = E.f
                else:
                    continue
            elif k == "staticmethod":
                sm = staticmethod(inner)

                class G(object):
                    f = sm
                thing = sm if rng.random() < 0.5 else G.f
                callable_thing = G.f
            desc.append(k)
        del ran[:]
        callable_thing()
        res.evaluations += 1
        res.count("towers")
        if len(desc) > 1:
            res.nontrivial("tower", tuple(desc))
        try:
            got = get_code(thing)
            got2 = get_code(callable_thing)
        except Exception as e:
            res.violation(kind="get_code raised on a wrapper tower", tower=desc, error=repr(e), interp=interp)
            continue
        if got is not ran[-1] or got2 is not ran[-1]:
            res.violation(kind="get_code resolved to code that is not what runs", tower=desc,
                          got=repr(got), ran=repr(ran[-1]), interp=interp)
        if len(res.samples) < 1 and len(desc) >= 4:
            res.sample({"tower": desc})

    # ---- nested name paths ------------------------------------------------------------------------
    for case in range(500 * scale):
        if budget.over():
            break
        depth = rng.randint(1, 4)
        kinds = [rng.choice("fc") for _ in range(depth)]
        kinds[-1] = "f"   # the innermost is a function we can call
        names = ["n%d" % rng.randint(0, 2) for _ in range(depth)]
        lines = ["def outer(RECORD):"]
        ind = 1
        # decoys with the same names at other levels
        if rng.random() < 0.5 and depth > 1 and names[-1] != names[0]:
            # same name as the innermost function, but at another level of the nesting
            lines.append("    " * ind + "def %s(): return 'decoy-before'" % names[-1])
        deep_decoy_level = rng.randrange(depth) if rng.random() < 0.5 else None
        for i, (k, nm) in enumerate(zip(kinds, names)):
            if i == deep_decoy_level:
                # an *earlier sibling* that contains, one or two levels down, something with the very name we
                # are about to look up at this level (a local decorator's `wrapper`, a class's method `run`)
                res.count("nest_same_name_deeper_in_earlier_sibling")
                if rng.random() < 0.5:
                    lines.append("    " * ind + "def sib%d(self=None):" % i)
                    lines.append("    " * (ind + 1) + "def %s(): return 'decoy-deeper'" % nm)
                    lines.append("    " * (ind + 1) + "return %s" % nm)
                else:
                    lines.append("    " * ind + "class Sib%d:" % i)
                    lines.append("    " * (ind + 1) + "def %s(self): return 'decoy-deeper'" % nm)
            if k == "f":
                lines.append("    " * ind + "def %s(%s):" % (nm, "self=None" if i and kinds[i - 1] == "c" else ""))
            else:
                lines.append("    " * ind + "class %s:" % nm)
            ind += 1
            if i == depth - 1:
                lines.append("    " * ind + "RECORD(sys._getframe(0).f_code)")
            elif rng.random() < 0.4:
                lines.append("    " * ind + "x%d = %d" % (i, i))
        # unwind: each function level returns its child; class levels just hold it
        for i in range(depth - 1, -1, -1):
            ind -= 1
            if i > 0 and kinds[i - 1] == "f":
                lines.append("    " * ind + "return %s" % names[i])
        lines.append("    return %s" % names[0])
        src = "\n".join(lines) + "\n"
        ns = {"sys": sys}
        try:
            exec(compile(src, "<nest%d>" % case, "exec"), ns)
        except SyntaxError:
            res.count("nest_syntaxerror")
            continue
        ran = []
        obj = ns["outer"](ran.append)
        try:
            for i in range(1, depth):
                if kinds[i - 1] == "f":
                    obj = obj()
                else:
                    obj = getattr(obj, names[i])
                if isinstance(obj, types.FunctionType) and i < depth - 1 and kinds[i] == "f":
                    pass
            if kinds[-2:-1] == ["c"] or depth == 1 or True:
                f = obj
            if isinstance(f, type):
                continue
            f() if not (depth > 1 and kinds[-2] == "c") else f(None)
        except Exception as e:
            res.count("nest_harness_skip")
            continue
        if not ran:
            res.count("nest_harness_skip")
            continue
        res.evaluations += 1
        res.count("nested_paths")
        if depth >= 2:
            res.nontrivial("nest", tuple(kinds), tuple(names))
        try:
            got = get_code(ns["outer"], *names)
        except Exception as e:
            res.violation(kind="get_code raised on a nested path", path=names, kinds=kinds, error=repr(e), source=src,
                          interp=interp)
            continue
        # duplicate names at one level make the path ambiguous only if the decoy precedes; the decoy above
        # lives at the top level of outer, which is a different level unless depth == 1
        if got is not ran[-1]:
            if depth == 1 and "decoy-before" in src:
                res.count("nest_ambiguous_same_level_name")
            else:
                res.violation(kind="nested path resolved to other code than what runs", path=names, kinds=kinds,
                              got=repr(got), ran=repr(ran[-1]), source=src, interp=interp)
    # missing name -> ValueError
    def _o():
        def _i():
            pass
        return _i
    try:
        get_code(_o, "nope")
        res.violation(kind="get_code did not raise for a missing nested name", interp=interp)
    except ValueError:
        pass

    # ---- identity, not equality ---------------------------------------------------------------------
    parked = []

    def park():
        yield

    for case in range(60 * scale):
        if budget.over():
            break
        src = "def f(n=%d):\n    return __import__('stackscope').extract_since(__import__('sys')._getframe(0))\n" % (case % 3)
        ns1, ns2 = {}, {}
        exec(compile(src, "<eq>", "exec"), ns1)
        exec(compile(src, "<eq>", "exec"), ns2)
        f1, f2 = ns1["f"], ns2["f"]
        if not (f1.__code__ == f2.__code__ and f1.__code__ is not f2.__code__):
            res.count("identity_pairs_not_equal_skipped")
            continue
        res.evaluations += 1
        res.count("identity_pairs")
        res.nontrivial("identity", case)
        which = case % 3
        marker = []
        if which == 0:
            customize(f1, hide=True)
            a, b = f1().frames[0].hide, f2().frames[0].hide
            ok = a is True and b is False
        elif which == 1:
            @elaborate_frame.register(f1)
            def _h(frame, nxt):
                marker.append(1)
                return None
            f1()
            n1 = len(marker)
            f2()
            ok = n1 == 1 and len(marker) == 1
            # latest registration wins
            marker2 = []

            @elaborate_frame.register(f1)
            def _h2(frame, nxt):
                marker2.append(1)
                return None
            f1()
            ok = ok and len(marker) == 1 and len(marker2) == 1
            ok = ok and elaborate_frame.dispatch(stackscope.Frame(pyframe=park_frame(parked, park))) is not _h2
        else:
            customize(f1.__code__, hide=True)   # registration through the code object itself
            ok = f1().frames[0].hide is True and f2().frames[0].hide is False
            customize(f2, hide_line=True)
            ok = ok and f2().frames[0].hide_line is True and f2().frames[0].hide is False
        if not ok:
            res.violation(kind="code_dispatch registration is not by identity / latest does not win", variant=which,
                          interp=interp)

    # ---- the decorator form returns the hook, so registrations can be stacked or the name reused -----------
    for rep in range(10 * scale):
        fns = []
        for n in range(3):
            def stk():
                return extract_since(sys._getframe(0))
            fns.append(types.FunctionType(stk.__code__.replace(co_name="stk%d_%d" % (rep, n)), globals(),
                                          "stk%d_%d" % (rep, n), None, stk.__closure__))
        seen = []

        @elaborate_frame.register(fns[0])
        @elaborate_frame.register(fns[1])
        def _stacked(frame, nxt):
            seen.append(frame.pyframe.f_code)
            frame.hide_line = True

        res.evaluations += 1
        res.count("stacked_registrations")
        problems = []
        if not callable(_stacked):
            problems.append("the decorator form of register() returned %r instead of the hook" % (_stacked,))
        else:
            elaborate_frame.register(fns[2], _stacked)     # direct form with the decorated name
        for n, f in enumerate(fns):
            fr = f().frames[0]
            if fr.hide_line is not True:
                problems.append("hook registered for target %d (of 3, stacked/reused) did not run" % n)
        if problems:
            res.violation(kind="stacked / reused registration lost", problems=problems[:3], interp=interp)

    # ---- customizations made *after* the code has already been through an extraction --------------------
    for rep in range(20 * scale):
        def late_fn():
            return extract_since(sys._getframe(0))
        late_fn = types.FunctionType(late_fn.__code__.replace(co_name="late%d" % rep), globals(), "late%d" % rep,
                                     None, late_fn.__closure__)
        res.evaluations += 1
        res.count("late_customizations")
        first = late_fn().frames[0]
        problems = []
        if first.hide or first.hide_line:
            problems.append("uncustomized frame is hidden")
        customize(late_fn, hide=True)
        if late_fn().frames[0].hide is not True:
            problems.append("customize(hide=True) after a first extraction has no effect")
        seen = []

        @elaborate_frame.register(late_fn)
        def _late(frame, nxt):
            seen.append(frame.pyframe.f_code)
            frame.hide_line = True

        fr = late_fn().frames[0]
        if seen != [late_fn.__code__] or fr.hide_line is not True:
            problems.append("elaborate_frame hook registered after earlier extractions is not used")
        if problems:
            res.violation(kind="customization registered late is ignored", problems=problems, interp=interp)

    # ---- every moment of a generator's / coroutine's / async generator's life at which it has a frame -------
    # (created but not started, suspended after each step, suspended inside a finally while being closed)
    @types.coroutine
    def _trap():
        yield

    def life_gen():
        try:
            yield 1
            yield 2
        finally:
            yield 3

    async def life_coro():
        try:
            await _trap()
            await _trap()
        finally:
            await _trap()

    async def life_agen():
        try:
            yield 1
            yield 2
        finally:
            await _trap()

    def _step(kind, obj, how):
        try:
            if kind == "agen":
                aw = obj.asend(None) if how == "next" else obj.athrow(GeneratorExit)
                try:
                    aw.send(None)
                    return aw   # suspended in the trap inside the finally: keep the awaitable alive
                except StopIteration:
                    return None
            if how == "next":
                obj.send(None)
            else:
                obj.throw(GeneratorExit)
        except (StopIteration, StopAsyncIteration, GeneratorExit):
            pass
        return None

    for rep in range(6 * scale):
        for kind, proto in (("gen", life_gen), ("coro", life_coro), ("agen", life_agen)):
            nm = "life_%s_%d" % (kind, rep)
            fn = types.FunctionType(proto.__code__.replace(co_name=nm), dict(globals(), _trap=_trap), nm, None,
                                    proto.__closure__)
            seen = []
            use_customize = rep % 2 == 0
            if use_customize:
                customize(fn, hide=True)
            else:
                @elaborate_frame.register(fn)
                def _life(frame, nxt, seen=seen):
                    seen.append(frame.pyframe.f_code)
                    frame.hide = True
            obj = fn()
            keep = None
            problems = []
            for moment, how in (("not started", None), ("after first step", "next"), ("after second step", "next"),
                                ("in finally while closing", "close")):
                if how is not None:
                    keep = _step(kind, obj, how)
                del seen[:]
                res.evaluations += 1
                res.count("lifecycle_moments")
                with warnings.catch_warnings():
                    warnings.simplefilter("ignore")
                    st = stackscope.extract(obj)
                mine = [f for f in st.frames if f.pyframe.f_code is fn.__code__]
                if len(mine) != 1:
                    problems.append("%s: %d frames of the target's code (error %r)" % (moment, len(mine), st.error))
                    continue
                if mine[0].hide is not True:
                    problems.append("%s: customization not applied to the frame running the registered code" % moment)
                if not use_customize and seen != [fn.__code__]:
                    problems.append("%s: hook ran %d times" % (moment, len(seen)))
                res.nontrivial("lifecycle", kind, moment, use_customize)
            try:
                if keep is not None:
                    keep.close()
                if kind == "agen":
                    pass
                else:
                    obj.close()
            except BaseException:  # noqa
                pass
            if problems:
                res.violation(kind="customization depends on the moment in the target's life", target=kind,
                              form="customize" if use_customize else "elaborate_frame.register", problems=problems[:4],
                              interp=interp)

    # ---- customize options ----------------------------------------------------------------------------
    combos = 0
    for hide in (False, True):
        for hide_line in (False, True):
            for prune in (False, True):
                for elab in ("none", "returns_none", "returns_replacement", "returns_prune", "returns_empty_list"):
                    for form in ("direct", "decorator"):
                        combos += 1
                        res.evaluations += 1
                        res.count("customize_combinations")
                        res.nontrivial("customize", hide, hide_line, prune, elab, form)
                        calls = []
                        repl_gen = park()
                        next(repl_gen)

                        def el_none(frame, nxt):
                            calls.append("none")
                            return None

                        def el_repl(frame, nxt):
                            calls.append("repl")
                            return repl_gen

                        def el_prune(frame, nxt):
                            calls.append("prune")
                            return PRUNE

                        def el_empty(frame, nxt):
                            calls.append("empty")
                            return []

                        kw = dict(hide=hide, hide_line=hide_line, prune=prune)
                        if elab == "returns_none":
                            kw["elaborate"] = el_none
                        elif elab == "returns_replacement":
                            kw["elaborate"] = el_repl
                        elif elab == "returns_prune":
                            kw["elaborate"] = el_prune
                        elif elab == "returns_empty_list":
                            kw["elaborate"] = el_empty

                        def callee(fr):
                            return extract_since(fr)

                        if form == "direct":
                            def target():
                                return callee(sys._getframe(0))
                            r = customize(target, **kw)
                            if r is not target:
                                res.violation(kind="customize(target) did not return the target", interp=interp)
                        else:
                            @customize(**kw)
                            def target():
                                return callee(sys._getframe(0))
                        s = target()
                        fr0 = s.frames[0]
                        names_after = [f.funcname for f in s.frames[1:]]
                        problems = []
                        if fr0.hide != hide:
                            problems.append("Frame.hide=%r" % fr0.hide)
                        if fr0.hide_line != hide_line:
                            problems.append("Frame.hide_line=%r" % fr0.hide_line)
                        if elab == "returns_replacement":
                            if names_after != ["park"]:
                                problems.append("replacement not in effect: %r" % names_after)
                        elif elab in ("returns_prune", "returns_empty_list"):
                            # the elaborate callback's own (non-None) result must take effect
                            if names_after:
                                problems.append("elaborate returned PRUNE/[] but callees present: %r" % names_after)
                        elif prune:
                            if names_after:
                                problems.append("prune=True but callees present: %r" % names_after)
                        else:
                            if "callee" not in names_after:
                                problems.append("callee missing without prune: %r" % names_after)
                        if elab != "none" and not calls:
                            problems.append("elaborate callback was not called")
                        if s.error is not None:
                            problems.append("error %r" % (s.error,))
                        if problems:
                            res.violation(kind="customize option not in effect", flags=kw.keys() and {
                                "hide": hide, "hide_line": hide_line, "prune": prune}, elaborate=elab, form=form,
                                problems=problems, interp=interp)
                        repl_gen.close()

    # ---- IdentityDict vs model (with icontract invariant when available) ---------------------------------
    ID = IdentityDict
    try:
        import icontract

        class InvariantBroken(Exception):
            pass

        def keyed_by_identity(self):
            return all(id(k) == i for i, (k, _) in self._data.items())

        ID = icontract.invariant(keyed_by_identity, error=InvariantBroken)(IdentityDict)
        res.count("icontract_available")
    except Exception as e:  # pragma: no cover
        res.count("icontract_unavailable")

    class Unhashable(list):
        pass

    for case in range(200 * scale):
        if budget.over():
            break
        pool = []
        for i in range(4):
            pool.append((1, 2))                     # equal tuples, distinct objects? (may be interned: build dynamically)
        pool = [tuple([1, i % 2]) for i in range(4)] + [Unhashable([1]), Unhashable([1]), {"a": 1}, {"a": 1},
                                                         1, 1.0, True, "k", "".join(["k"]), object(), None]
        code_a = compile("x=1", "<a>", "exec")
        code_b = compile("x=1", "<a>", "exec")
        pool += [code_a, code_b]
        d = ID()
        model = {}   # id -> (key, value), insertion ordered
        collided = False
        ops = 0
        try:
            for step in range(rng.randint(5, 120)):
                op = rng.choice(["set", "set", "set", "get", "del", "pop", "popd", "popitem", "setdefault", "len", "iter",
                                 "contains", "clear", "eq", "update", "items", "repr"])
                k = rng.choice(pool)
                ops += 1
                if any(k == m[0] and k is not m[0] for m in model.values() if type(k) is type(m[0])):
                    collided = True
                if op == "set":
                    v = rng.randrange(100)
                    d[k] = v
                    if id(k) in model:
                        model[id(k)] = (k, v)
                    else:
                        model[id(k)] = (k, v)
                elif op == "get":
                    try:
                        got = d[k]
                        exp = model[id(k)][1]
                        assert got == exp, ("get", got, exp)
                    except KeyError:
                        assert id(k) not in model, "KeyError for present key"
                elif op == "del":
                    try:
                        del d[k]
                        assert id(k) in model, "del of absent key succeeded"
                        del model[id(k)]
                    except KeyError:
                        assert id(k) not in model, "KeyError deleting present key"
                elif op == "pop":
                    try:
                        got = d.pop(k)
                        assert id(k) in model and got == model[id(k)][1], ("pop", got)
                        del model[id(k)]
                    except KeyError:
                        assert id(k) not in model, "KeyError popping present key"
                elif op == "popd":
                    got = d.pop(k, "dflt")
                    if id(k) in model:
                        assert got == model[id(k)][1]
                        del model[id(k)]
                    else:
                        assert got == "dflt"
                elif op == "popitem":
                    if model:
                        kk, vv = d.popitem()
                        lk = list(model)[-1]
                        assert kk is model[lk][0] and vv == model[lk][1], "popitem is not LIFO/identical"
                        del model[lk]
                    else:
                        try:
                            d.popitem()
                            assert False, "popitem on empty succeeded"
                        except KeyError:
                            pass
                elif op == "setdefault":
                    got = d.setdefault(k, 7)
                    if id(k) not in model:
                        model[id(k)] = (k, 7)
                    assert got == model[id(k)][1]
                elif op == "len":
                    assert len(d) == len(model)
                elif op == "iter":
                    ks = list(d)
                    assert len(ks) == len(model) and all(a is b[0] for a, b in zip(ks, model.values())), "iteration order/identity"
                elif op == "contains":
                    try:
                        got = k in d
                        assert got == (id(k) in model), ("contains", got)
                    except TypeError:
                        assert False, "`in` raised TypeError for unhashable key"
                elif op == "clear":
                    if rng.random() < 0.2:
                        d.clear()
                        model.clear()
                elif op == "eq":
                    other = IdentityDict((kk, vv) for kk, vv in model.values())
                    assert d == other, "equality with an identically built IdentityDict"
                elif op == "update":
                    k2 = rng.choice(pool)
                    d.update([(k, 1), (k2, 2)])
                    model[id(k)] = (k, 1)
                    model[id(k2)] = (k2, 2)
                elif op == "items":
                    its = list(d.items())
                    assert len(its) == len(model) and all(a[0] is b[0] and a[1] == b[1] for a, b in zip(its, model.values()))
                elif op == "repr":
                    repr(d)
        except AssertionError as e:
            res.violation(kind="IdentityDict differs from the id()-keyed model", detail=repr(e.args), interp=interp)
        except Exception as e:
            res.violation(kind="IdentityDict raised / invariant broken", error=repr(e), interp=interp)
        res.evaluations += 1
        res.count("identitydict_ops", ops)
        if collided:
            res.nontrivial("idict", case, spec["seed"])
    res.sample({"customize_combinations": combos})
    return res


def park_frame(parked, park):
    g = park()
    next(g)
    parked.append(g)
    return g.gi_frame
