"""C01 - contexts of a suspended frame are exactly the entered-but-not-exited managers.

Deciding method: shadow-log oracle.  Generated programs (random grammar programs, systematic
templates, stdlib-skeleton corpus) run on the real interpreter; after every suspension the
monitor compares extract(x).frames[i].contexts and lowlevel.contexts_active_in_frame with the
fold over the managers' own event log.  Thorough adds a static exit-site scan of the stdlib.
"""
import sys
import warnings

PROPERTY = "C01"
LEVEL = "exploration"
RULE = ("programs: seeded grammar programs (with/async with 1..3 items, try/except/else/finally, for/while, if, "
        "match, all exits), systematic templates {exit kind x last stmt x nesting x items x sync/async x surround}, "
        "stdlib control-flow skeletons (as written and asyncified); kinds coroutine/generator/async generator; "
        "driven by send/throw/GeneratorExit with injected exceptions; every suspension observed through "
        "extract() and lowlevel.contexts_active_in_frame. non-trivial = observation with >=1 expected active "
        "context; distinct by (interpreter, program, run seed, suspension index)")
ASSUMPTIONS = [
    "ground truth is the managers' own enter/exit event log (independent of stackscope)",
    "decides the generated programs only, not every program the compiler can emit",
    "managers are Python classes (incl. falsy ones and ones whose exit method is an alias) or have C-level "
    "__enter__/__exit__; exit methods declare an explicit first parameter that stays bound to the manager and async "
    "exits are `async def` (the exiting manager's obj is, by documented design, read off the callee frame)",
    "3.9/3.10 run with a 5-line ExceptionGroup stand-in (the backport is not in the wheelhouse)",
]
MIN_NONTRIVIAL = {"quick": 5000, "thorough": 100000}
REQUIRED_COUNTERS = {"obs_exiting": {"quick": 500, "thorough": 5000},
                     "obs_in_aenter": {"quick": 100, "thorough": 1000},
                     "obs_exc_exit": {"quick": 50, "thorough": 500},
                     "frames_with_c_level_manager": {"quick": 300, "thorough": 3000},
                     "frames_with_alias_named_exit": {"quick": 300, "thorough": 3000},
                     "frames_with_falsy_manager": {"quick": 300, "thorough": 3000},
                     "earlier_results_rechecked": {"quick": 10000, "thorough": 100000}}
SHARD_TIMEOUT = {"quick": 400, "thorough": 5400}
INTERPS = ["3.12", "3.11", "3.10", "3.9"]


def plan(tier, seed):
    from vlib.ctxwork import standard_plan
    quick = {
        "random": (2, 150, {"runs": 4, "budget_s": 45}),
        "templates": (1, 400, {"runs": 3, "budget_s": 45}),
        "skeleton": (1, 350, {"runs": 3, "asyncify": True, "budget_s": 45, "corpus_seed": seed}),
    }
    thorough = {
        "random": (4, 2500, {"runs": 6, "budget_s": 1500}),
        "templates": (2, 12000, {"runs": 4, "budget_s": 1500}),
        "skeleton": (3, 1200, {"runs": 6, "asyncify": True, "budget_s": 1500, "corpus_seed": seed}),
        "skeleton:aswritten": (1, 3000, {"runs": 6, "asyncify": False, "budget_s": 1500, "corpus_seed": seed}),
        "skeleton:gen": (1, 3000, {"runs": 4, "asyncify": False, "kind": "gen", "budget_s": 1500, "corpus_seed": seed}),
    }
    shards = standard_plan(tier, seed, INTERPS, "suspended", quick, thorough)
    if tier == "thorough":
        for interp in ("3.12", "3.11"):
            shards.append({"interp": interp, "leg": "static", "seed": seed})
    return shards


def worker(spec):
    from vlib.worker import Result
    res = Result()
    if spec["leg"] == "static":
        static_scan(spec, res)
        return res
    from vlib import ctxwork, drive, ctxmon
    import stackscope
    from stackscope import lowlevel as ll

    interp = "%d.%d" % sys.version_info[:2]
    budget = ctxwork.Budget(spec.get("budget_s", 60))
    state = {}

    def observe(run, x, value, info):
        res.evaluations += 1
        with warnings.catch_warnings(record=True) as w:
            warnings.simplefilter("always")
            st = stackscope.extract(x)
        problems = []
        iw = ctxmon.insp_warnings(w)
        if iw:
            problems.append("InspectionWarning: %s" % iw[0])
        if st.error is not None:
            problems.append("Stack.error: %r" % (st.error,))
        nontrivial = False
        frames_with_ctx = 0
        for i, fr in enumerate(st.frames):
            exp = run.truth(id(fr.pyframe))
            kinds = set(type(m).__name__ for m, _, _ in exp)
            if "SC" in kinds:
                res.count("frames_with_c_level_manager")
            if "SX" in kinds or "AX" in kinds:
                res.count("frames_with_alias_named_exit")
            if "SF" in kinds or "AF" in kinds:
                res.count("frames_with_falsy_manager")
            if len(exp) >= 11:
                res.count("obs_with_11_or_more_active_contexts")
            if exp:
                nontrivial = True
                frames_with_ctx += 1
                if exp[-1][2]:
                    res.count("obs_exiting")
                    if value and value[0] == "aexit":
                        pass
            p = ctxmon.compare_exact(fr.contexts, exp)
            if p:
                problems.append("frame %d (%s): %s; got %r expected %r" % (
                    i, fr.funcname, p, [ctxmon.brief_ctx(c) for c in fr.contexts], ctxmon.brief_truth(exp)))
            # second entry point
            nxt = st.frames[i + 1].pyframe if i + 1 < len(st.frames) else None
            with warnings.catch_warnings(record=True) as w2:
                warnings.simplefilter("always")
                direct = ll.contexts_active_in_frame(fr.pyframe, fr.origin, nxt)
            if ctxmon.insp_warnings(w2) and not iw:
                problems.append("InspectionWarning (lowlevel): %s" % ctxmon.insp_warnings(w2)[0])
            a = [(c.obj, c.is_async, c.is_exiting, c.varname, c.start_line) for c in direct]
            b = [(c.obj, c.is_async, c.is_exiting, c.varname, c.start_line) for c in fr.contexts]
            if len(a) != len(b) or any(x1[0] is not y1[0] or x1[1:] != y1[1:] for x1, y1 in zip(a, b)):
                problems.append("frame %d: lowlevel entry point and extract() disagree" % i)
            res.count("frames_checked")
        gcodes = [fr.pyframe.f_code for fr in st.frames if drive.is_generated(fr.pyframe)]
        if len(gcodes) != len(set(gcodes)):
            res.count("obs_with_recursive_activations")
        res.count("obs")
        if nontrivial:
            res.count("obs_nontrivial")
            res.nontrivial(interp, state["label"], state["rseed"], info["step"])
        if frames_with_ctx >= 2:
            res.count("obs_multi_frame")
        if value and isinstance(value, tuple):
            if value[0] == "aenter":
                res.count("obs_in_aenter")
            elif value[0] == "aexit":
                res.count("obs_in_aexit")
        if info.get("after") == "throw":
            res.count("obs_after_throw")
        if info.get("after") == "genexit":
            res.count("obs_genexit_unwind")
        if info.get("at") == "yield":
            res.count("obs_agen_at_yield")
        # exception-path exit in progress?
        for ev in reversed(run.trace):
            if ev[0] == "xs":
                if ev[2] is not None and any(t[2] for fr in st.frames for t in run.truth(id(fr.pyframe))):
                    res.count("obs_exc_exit")
                break
            if ev[0] in ("es",):
                break
        # results are values: an earlier result (of this or of another activation of the same code) must not
        # change because a later extraction ran
        kept = state.setdefault("kept", [])
        for old_st, old_snap, old_where in kept:
            res.count("earlier_results_rechecked")
            if snapshot(old_st) != old_snap and not problems:
                problems.append("the result of an earlier extraction (%s) changed when this one ran: %r -> %r" % (
                    old_where, old_snap, snapshot(old_st)))
        if any(fr.contexts for fr in st.frames):
            kept.append((st, snapshot(st), "run %r step %r" % (state["rseed"], info["step"])))
            del kept[:-4]
        if problems and not state.get("failed"):
            state["failed"] = True
            res.violation(kind="contexts-mismatch", label=state["label"], run_seed=state["rseed"],
                          step=info["step"], at=repr(value), after=info.get("after"),
                          problems=problems[:4], source=state["src"], interp=interp)

    def snapshot(st):
        return [[(id(c.obj), c.is_async, c.is_exiting, c.varname, c.start_line) for c in fr.contexts] for fr in st.frames]

    nprog = 0
    for label, src, kind in ctxwork.programs(spec, "suspended"):
        if budget.over():
            res.count("budget_cut")
            break
        try:
            code, filename = drive.compile_program(src)
        except SyntaxError as ex:
            res.count("syntaxerror")
            continue
        nprog += 1
        res.count("programs")
        res.count("programs_" + spec["leg"])
        state.update(label=label, src=src, failed=False, kept=[])
        for r in range(spec.get("runs", 3)):
            state["rseed"] = r
            run = drive.drive_suspended(code, kind, spec.get("seed", 0) * 131 + r, observe)
            res.count("end_" + (run.end[0] if run.end else "none"))
        if nprog <= 2:
            res.sample({"label": label, "source": src, "runs": spec.get("runs", 3)})
    return res


def static_scan(spec, res):
    """Static corpus leg: every exit-call site of every code object compiled from the stdlib.
    For the suspended and the running f_lasti convention require: no warning, a result whose
    cleanup_offset is a with block of analyze_with_blocks(code), and start_line == the line the
    compiler attributes to the exit instruction (a necessary condition only)."""
    import dis
    import types
    from stackscope import lowlevel as ll
    from vlib import skel
    interp = "%d.%d" % sys.version_info[:2]
    root, files = skel.stdlib_files(0)
    op = dis.opmap

    class FakeFrame(object):
        def __init__(self, code, lasti):
            self.f_code = code
            self.f_lasti = lasti

    def codes(co):
        yield co
        for c in co.co_consts:
            if isinstance(c, types.CodeType):
                for x in codes(c):
                    yield x

    for p in files:
        try:
            with open(p, "rb") as f:
                top = compile(f.read(), p, "exec")
        except Exception:
            continue
        for co in codes(top):
            insns = list(dis.get_instructions(co, show_caches=True)) if sys.version_info >= (3, 11) \
                else list(dis.get_instructions(co))
            if not any(i.opname in ("BEFORE_WITH", "BEFORE_ASYNC_WITH") for i in insns):
                continue
            try:
                blocks = ll.analyze_with_blocks(co)
            except Exception as ex:
                res.violation(kind="analyze_with_blocks raised", file=p, func=co.co_name, error=repr(ex))
                continue
            line = None
            for idx, ins in enumerate(insns):
                if ins.starts_line is not None:
                    line = ins.starts_line
                # exit call sites: CALL 2 preceded (ignoring CACHE/PRECALL) by three LOAD_CONST None
                if ins.opname != "CALL" or ins.arg != 2:
                    continue
                j = idx - 1
                while j >= 0 and insns[j].opname in ("CACHE", "PRECALL"):
                    j -= 1
                ok = True
                for _ in range(3):
                    while j >= 0 and insns[j].opname == "EXTENDED_ARG":
                        j -= 1
                    if j < 0 or insns[j].opname != "LOAD_CONST" or insns[j].argval is not None:
                        ok = False
                        break
                    j -= 1
                if not ok:
                    continue
                # is this really an __exit__ call? the with statement's line must have a with block
                positions = [ins.offset]
                # async: suspended lasti is at the YIELD_VALUE after SEND; running lasti is on
                # SEND's cache (3.12) / SEND (3.11)
                k = idx + 1
                while k < len(insns) and insns[k].opname == "CACHE":
                    k += 1
                is_async = k < len(insns) and insns[k].opname == "GET_AWAITABLE" and insns[k].arg == 2
                if is_async:
                    positions = []
                    m = k
                    while m < len(insns) and insns[m].opname != "YIELD_VALUE":
                        if insns[m].opname == "SEND":
                            positions.append(insns[m].offset)
                            if m + 1 < len(insns) and insns[m + 1].opname == "CACHE":
                                positions.append(insns[m + 1].offset)
                        m += 1
                    if m < len(insns):
                        positions.append(insns[m].offset)
                for lasti in positions:
                    res.evaluations += 1
                    with warnings.catch_warnings(record=True) as w:
                        warnings.simplefilter("always")
                        try:
                            ex = ll.currently_exiting_context(FakeFrame(co, lasti))
                        except Exception as e:
                            ex = e
                    bad = None
                    if w:
                        bad = "warning: %s" % str(w[0].message)[:120]
                    elif ex is None:
                        # CALL 2 with three None arguments that is not a with exit (f(None, None, None)
                        # is CALL 3) - cannot be produced by ordinary calls; report
                        bad = "exit site not recognised"
                    elif isinstance(ex, Exception):
                        bad = "raised %r" % (ex,)
                    elif ex.cleanup_offset not in blocks:
                        bad = "cleanup_offset %r is not a with block" % ex.cleanup_offset
                    elif ex.is_async != is_async:
                        bad = "is_async wrong"
                    elif ins.positions is not None and blocks[ex.cleanup_offset].start_line != ins.positions.lineno \
                            and blocks[ex.cleanup_offset].start_line != line:
                        bad = "resolved to the with on line %r but the exit instruction belongs to line %r" % (
                            blocks[ex.cleanup_offset].start_line, ins.positions.lineno)
                    res.count("sites_async" if is_async else "sites_sync")
                    res.nontrivial(interp, p, co.co_name, co.co_firstlineno, lasti)
                    if bad:
                        res.violation(kind="static-exit-site", file=p[len(root):], func=co.co_name,
                                      firstlineno=co.co_firstlineno, lasti=lasti, problem=bad, interp=interp)
    res.count("obs_exiting", 10 ** 6)  # static shard does not contribute dynamic counters
    res.counters.pop("obs_exiting")
    return res
