"""Program streams shared by the context-manager properties (C01 C02 C06 C08 C20)."""
import random
import sys
import time

from . import proggen, skel


def programs(spec, mode):
    """yield (label, src, kind).  spec['leg'] in random | templates | skeleton"""
    leg = spec["leg"]
    seed = spec.get("seed", 0)
    if leg == "random":
        kinds = spec.get("kinds") or (["coro", "gen", "agen"] if mode == "suspended"
                                      else ["sync", "gen", "coro", "agen", "module", "class"])
        for i in range(spec["start"], spec["start"] + spec["count"]):
            kind = kinds[i % len(kinds)]
            pseed = seed * 1000003 + i
            pad = (i % 23 == 7) and kind not in ("module", "class")
            if i % 17 == 5 and kind in ("coro", "gen", "agen", "sync"):
                src = proggen.deep(pseed, kind, mode)
                yield ("deep", pseed, kind), src, kind
                continue
            size = spec.get("size", 2 + (i % 3 == 0))
            src = proggen.generate(pseed, kind, mode, size=size, pad=pad)
            while src.count("\n") > 130 and size > 1:
                # dis is quadratic on huge functions; keep individual extractions fast
                size -= 1
                src = proggen.generate(pseed, kind, mode, size=size, pad=pad)
            yield ("random", pseed, kind, "pad" if pad else ""), src, kind
    elif leg == "templates":
        kinds = spec.get("kinds") or (["coro", "gen", "agen"] if mode == "suspended"
                                      else ["sync", "gen", "coro", "agen"])
        combos = []
        for kind in kinds:
            for t in proggen.all_templates(kind, mode):
                if spec.get("surrounds") and t[5] not in spec["surrounds"]:
                    continue
                combos.append((kind, t))
        random.Random(seed).shuffle(combos)
        if spec["start"] == 0 and not spec.get("surrounds"):
            # first of all: programs that enter one manager object twice in a frame
            for kind in kinds:
                for shape, src in proggen.reentrant_programs(kind, mode):
                    yield ("reentrant", kind, shape), src, kind
        for kind, t in combos[spec["start"]: spec["start"] + spec["count"]]:
            src = proggen.template(*t, kind=kind, mode=mode)
            if src is None:
                continue
            yield ("template", kind) + t, src, kind
    elif leg == "skeleton":
        kind = spec.get("kind", "coro")
        for label, src in skel.corpus(spec.get("corpus_seed", 0), spec["start"], spec["count"],
                                      running=(mode == "running"), asyncify=spec.get("asyncify", False),
                                      kind=kind):
            yield ("skeleton",) + label + ("asyncified" if spec.get("asyncify") else "as-written",), src, kind
    else:
        raise ValueError(leg)


class Budget(object):
    def __init__(self, seconds):
        import os
        self.t0 = time.time()
        # soft per-shard time budget (caps the amount of work, never a verdict); the thorough tier
        # scales the nominal budgets so that the whole suite stays within a few hours
        self.seconds = seconds * float(os.environ.get("VERIF_BUDGET_SCALE") or 1.0)

    def over(self, fraction=1.0):
        """fraction < 1: an earlier leg's share, so that later legs of the same shard are always reached"""
        return time.time() - self.t0 > self.seconds * fraction


def standard_plan(tier, seed, interps, mode, quick_shape=None, thorough_shape=None):
    """shards for the context properties: per interpreter a mix of legs.  Shapes are
    {leg: (shards, count_per_shard)}."""
    shape = (quick_shape if tier == "quick" else thorough_shape)
    shards = []
    for interp in interps:
        for leg, (nshards, count, extra) in shape.items():
            for s in range(nshards):
                spec = {"interp": interp, "leg": leg.split(":")[0], "seed": seed, "start": s * count, "count": count}
                spec.update(extra)
                shards.append(spec)
    return shards
