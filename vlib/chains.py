"""Await / yield-from chain builder for C03 and C16.  Pure stdlib, Python 3.9+.

A chain spec is (root_kind, [link, ...], leaf) with
  root_kind: 'co' | 'gen' | 'agen'
  link:      (kind, pre, post)  - kind in LINKS; pre/post = number of own trap suspensions before /
             after delegating to the inner object
  leaf:      'trap' | 'trap2' | 'iter' | 'custom_iter' | 'future'
build(spec) returns a fresh target x; step() advances it by one suspension.
"""
import sys
import types


class Probe(Exception):
    pass


def line_for(code, lasti):
    """line of the instruction at offset lasti (independent of frame.f_lineno, which is stale
    inside a trace function on 3.9)"""
    import dis
    line = code.co_firstlineno
    for off, ln in dis.findlinestarts(code):
        if off > lasti:
            break
        if ln is not None:
            line = ln
    return line


@types.coroutine
def trap(v):
    return (yield v)


class AwIter(object):
    """__await__ returns a plain iterator (non-frame leaf)"""

    def __init__(self, n=1):
        self.n = n

    def __await__(self):
        return iter(list(range(self.n)))


class CustomIter(object):
    def __init__(self, n=2):
        self.n = n

    def __iter__(self):
        return self

    def __await__(self):
        return self

    def __next__(self):
        if self.n <= 0:
            raise StopIteration("done")
        self.n -= 1
        return ("custom", self.n)

class CountingIter(CustomIter):
    """`len()` = items remaining, so the object is falsy exactly while the chain is suspended on
    its last item"""

    def __len__(self):
        return self.n


class PendingFuture(object):
    """future-like leaf whose truth value means "done": falsy while it is being awaited"""

    def __init__(self, n=2):
        self.n = n

    def __await__(self):
        return self

    def __iter__(self):
        return self

    def __next__(self):
        if self.n <= 0:
            raise StopIteration("done")
        self.n -= 1
        return ("pending", self.n)

    def __bool__(self):
        return False


class Future(object):
    """asyncio-style: __await__ is a generator method yielding self"""

    def __init__(self, n=1):
        self.n = n

    def __await__(self):
        for _ in range(self.n):
            yield self
        return "fut"

    __iter__ = __await__


class AwWrap(object):
    """__await__ returns the coroutine wrapper of an inner coroutine (or the inner iterator)"""

    def __init__(self, inner):
        self.inner = inner

    def __await__(self):
        if hasattr(self.inner, "__await__"):
            return self.inner.__await__()
        if isinstance(self.inner, types.GeneratorType) and self.inner.gi_code.co_flags & 0x100:
            return _plain(self.inner)  # __await__ may not return a (generator-based) coroutine
        return self.inner


def _plain(it):
    r = yield from it
    return r


class AwGen(object):
    """__await__ is a generator that yields from the inner awaitable"""

    def __init__(self, inner):
        self.inner = inner

    def __await__(self):
        it = self.inner.__await__() if hasattr(self.inner, "__await__") else self.inner
        r = yield from it
        return r


async def _pre(n, tag):
    for i in range(n):
        await trap((tag, "pre", i))


async def _post(n, tag):
    for i in range(n):
        await trap((tag, "post", i))


def awaitable(x):
    """make x awaitable from an `await` expression"""
    if hasattr(x, "__await__"):
        return x
    if isinstance(x, types.GeneratorType) and x.gi_code.co_flags & 0x100:
        return x  # generator-based coroutine (types.coroutine): directly awaitable
    return AwWrap(x)


# ---- coroutine-context links: each returns an awaitable that delegates to inner -------------
async def link_co(inner, pre, post):
    for i in range(pre):
        await trap(("co", "pre", i))
    r = await awaitable(inner)
    for i in range(post):
        await trap(("co", "post", i))
    return r


@types.coroutine
def link_gc(inner, pre, post):
    for i in range(pre):
        yield ("gc", "pre", i)
    it = inner.__await__() if hasattr(inner, "__await__") and not isinstance(inner, types.GeneratorType) else inner
    r = yield from it
    for i in range(post):
        yield ("gc", "post", i)
    return r


async def link_wrap(inner, pre, post):
    for i in range(pre):
        await trap(("wrap", "pre", i))
    r = await AwWrap(inner)
    for i in range(post):
        await trap(("wrap", "post", i))
    return r


async def _one_trap(tag):
    await trap(tag)


async def link_wrap_loop(inner, pre, post):
    """one await site visited several times, each time with a *fresh* awaitable of the same (not weakly
    referenceable) kind: first around short-lived coroutines, finally around the rest of the chain"""
    todo = [_one_trap(("wrap_loop", "pre", i)) for i in range(pre + 1)] + [inner]
    r = None
    for x in todo:
        r = await AwWrap(x)
    for i in range(post):
        await trap(("wrap_loop", "post", i))
    return r


async def link_awgen(inner, pre, post):
    for i in range(pre):
        await trap(("awgen", "pre", i))
    r = await AwGen(inner)
    for i in range(post):
        await trap(("awgen", "post", i))
    return r


async def _agen_body(inner, pre, post, mode):
    for i in range(pre):
        await trap(("agen", "pre", i))
    if mode == "plain":
        await awaitable(inner)
        yield 1
    elif mode == "athrow":
        try:
            yield 0
        except KeyError:
            await awaitable(inner)
            yield 1
    elif mode == "aclose":
        try:
            yield 0
        finally:
            await awaitable(inner)
    for i in range(post):
        await trap(("agen", "post", i))


async def _agen_payload_body(inner):
    got = yield 0          # receives the payload sent in
    await awaitable(inner)
    yield got


async def _bystander_agen():
    yield "bystander"


async def link_asend_payload(inner, pre, post):
    """the value passed to asend() is itself an async generator (started or not): it is a referent of
    the asend awaitable too, but it is not on the path an exception would take"""
    ag = _agen_payload_body(inner)
    await ag.asend(None)
    other = _bystander_agen()
    if pre:
        await other.asend(None)     # a started bystander has ag_frame as well
    await ag.asend(other)
    await ag.aclose()
    await other.aclose()


async def link_anext(inner, pre, post):
    ag = _agen_body(inner, pre, post, "plain")
    await ag.__anext__()
    await ag.aclose()


async def link_asend(inner, pre, post):
    ag = _agen_body(inner, pre, post, "plain")
    await ag.asend(None)
    await ag.aclose()


async def link_afor(inner, pre, post):
    async for _ in _agen_body(inner, pre, post, "plain"):
        pass


async def link_athrow(inner, pre, post):
    ag = _agen_body(inner, pre, post, "athrow")
    await ag.asend(None)
    await ag.athrow(KeyError())
    await ag.aclose()


async def link_aclose(inner, pre, post):
    ag = _agen_body(inner, pre, 0, "aclose")
    await ag.asend(None)
    await ag.aclose()


async def link_anext_default(inner, pre, post):
    """the two-argument builtin (3.10+): an awaitable wrapping the __anext__() awaitable; the default -
    here an async generator of its own, started or not - is not on the path an exception would take"""
    ag = _agen_body(inner, pre, post, "plain")
    other = _bystander_agen()
    if pre:
        await other.asend(None)
    aw = _builtin_anext(ag, other)
    ANEXT_WRAPS[id(aw)] = (aw, ag)      # for the oracle: which async generator this awaitable drives
    try:
        await aw
    finally:
        ANEXT_WRAPS.pop(id(aw), None)
    await ag.aclose()
    await other.aclose()


CO_LINKS = {
    "co": link_co, "gc": link_gc, "wrap": link_wrap, "wrap_loop": link_wrap_loop, "awgen": link_awgen, "anext": link_anext,
    "asend": link_asend, "afor": link_afor, "athrow": link_athrow, "aclose": link_aclose,
    "asend_payload": link_asend_payload,
}


import builtins as _builtins
ANEXT_WRAPS = {}
_builtin_anext = getattr(_builtins, "anext", None)
if _builtin_anext is not None:
    CO_LINKS["anext_default"] = link_anext_default


# ---- generator-context links ------------------------------------------------------------------
def link_yf(inner, pre, post):
    for i in range(pre):
        yield ("yf", "pre", i)
    r = yield from inner
    for i in range(post):
        yield ("yf", "post", i)
    return r


GEN_LINKS = {"yf": link_yf}


# ---- leaves -------------------------------------------------------------------------------------
async def leaf_trap():
    await trap(("leaf", 0))


async def leaf_trap2():
    await trap(("leaf", 0))
    await trap(("leaf", 1))


async def leaf_iter():
    await AwIter(2)


async def leaf_custom():
    await CustomIter(2)


async def leaf_future():
    await Future(2)


async def leaf_counting():
    await CountingIter(2)


async def leaf_pending():
    await PendingFuture(2)


def gleaf_counting():
    yield from CountingIter(2)


def gleaf_yield():
    yield ("gleaf", 0)
    yield ("gleaf", 1)


def gleaf_iter():
    yield from iter([("it", 0), ("it", 1)])


def gleaf_custom():
    yield from CustomIter(2)


CO_LEAVES = {"trap": leaf_trap, "trap2": leaf_trap2, "iter": leaf_iter, "custom_iter": leaf_custom,
             "future": leaf_future, "counting_iter": leaf_counting, "pending_future": leaf_pending}
GEN_LEAVES = {"yield": gleaf_yield, "iter": gleaf_iter, "custom_iter": gleaf_custom, "counting_iter": gleaf_counting}
NONFRAME_LEAVES = ("iter", "custom_iter")


async def _agen_root(inner, pre, post):
    for i in range(pre):
        await trap(("root", "pre", i))
    await awaitable(inner)
    yield "root-yield"
    for i in range(post):
        await trap(("root", "post", i))


class Target(object):
    """uniform stepping interface over coroutine / generator / async generator roots"""

    def __init__(self, spec):
        self.spec = spec
        root, links, leaf = spec
        if root == "gen":
            x = GEN_LEAVES[leaf]()
            for kind, pre, post in reversed(links):
                x = GEN_LINKS[kind](x, pre, post)
            if not links:
                x = link_yf(x, 0, 0)
        else:
            x = CO_LEAVES[leaf]()
            for kind, pre, post in reversed(links):
                x = CO_LINKS[kind](x, pre, post)
            if root == "agen":
                x = _agen_root(x, 1, 1)
            elif not isinstance(x, types.CoroutineType) and not isinstance(x, types.GeneratorType):
                x = link_co(x, 0, 0)
        self.x = x
        self.root = root
        self.aw = None
        self.done = False
        self.at_yield = False

    def step(self):
        """advance to the next suspension; returns False when finished"""
        try:
            if self.root in ("co", "gen"):
                self.x.send(None)
                return True
            if self.aw is None:
                self.aw = self.x.asend(None)
                self.at_yield = False
            try:
                self.aw.send(None)
                return True
            except StopIteration:
                self.aw = None
                self.at_yield = True
                return True
        except (StopIteration, StopAsyncIteration):
            self.done = True
            return False

    def throw_probe(self):
        """the oracle: what would an exception thrown in now unwind through?  Frames are taken
        from the interpreter's own 'exception' trace events (innermost first), because the
        traceback object loses entries when a throw is relayed through asend/athrow/aclose
        awaitables (observed on 3.9-3.12); the traceback is returned too, as a cross-check."""
        events = []
        me = sys._getframe(0)

        def tracer(frame, event, arg):
            if event == "exception" and frame is not me:
                if not events or events[-1][0] is not frame:
                    events.append((frame, line_for(frame.f_code, frame.f_lasti)))
            return tracer

        old = sys.gettrace()
        result = None
        sys.settrace(tracer)
        try:
            try:
                if self.root in ("co", "gen"):
                    self.x.throw(Probe())
                elif self.aw is not None:
                    self.aw.throw(Probe())
                else:
                    self.x.athrow(Probe()).send(None)
                result = ("no exception",)
            except Probe as e:
                sys.settrace(old)
                tb = e.__traceback__.tb_next  # skip this frame
                tbl = []
                while tb is not None:
                    tbl.append((tb.tb_frame, tb.tb_lineno))
                    tb = tb.tb_next
                self.traceback_frames = tbl
                result = list(reversed(events))
            except BaseException as e:  # noqa
                result = ("other", e)
        finally:
            sys.settrace(old)
        return result

    def close(self):
        try:
            if self.root == "agen":
                if self.aw is not None:
                    try:
                        self.aw.close()
                    except BaseException:
                        pass
                self.x.aclose().send(None)
            else:
                self.x.close()
        except BaseException:
            pass


def owner_map(x):
    """frame id -> owning generator/coroutine/async generator, discovered by walking
    cr_await / gi_yieldfrom / ag_await and gc referents of C-level awaitables"""
    import gc
    m = {}
    seen = set()

    def visit(o):
        if o is None or id(o) in seen:
            return
        seen.add(id(o))
        for fa, aw in (("cr_frame", "cr_await"), ("gi_frame", "gi_yieldfrom"), ("ag_frame", "ag_await")):
            if hasattr(o, fa):
                fr = getattr(o, fa)
                if fr is not None:
                    m[id(fr)] = o
                visit(getattr(o, aw))
                return
        if type(o).__name__ == "anext_awaitable":
            # the harness made this awaitable itself and knows which async generator it drives
            ent = ANEXT_WRAPS.get(id(o))
            if ent is not None and ent[0] is o:
                visit(ent[1])
            return
        for r in gc.get_referents(o):
            if isinstance(r, (types.CoroutineType, types.GeneratorType, types.AsyncGeneratorType)):
                visit(r)

    visit(x)
    return m


def enumerate_specs(max_depth, rng=None, sample=None, pre_post=((0, 0), (1, 0), (0, 1), (1, 1))):
    """all chain specs of depth 0..max_depth (optionally a random sample per depth)"""
    import itertools
    specs = []
    for root in ("co", "agen"):
        for depth in range(0, max_depth + 1):
            combos = list(itertools.product(sorted(CO_LINKS), repeat=depth))
            if sample is not None and rng is not None and len(combos) > sample:
                combos = rng.sample(combos, sample)
            for kinds in combos:
                for leaf in sorted(CO_LEAVES):
                    if rng is not None:
                        pp = [rng.choice(pre_post) for _ in kinds]
                    else:
                        pp = [(0, 0)] * len(kinds)
                    specs.append((root, [(k,) + p for k, p in zip(kinds, pp)], leaf))
    for depth in range(0, max_depth + 1):
        for leaf in sorted(GEN_LEAVES):
            pp = [(rng.choice(pre_post) if rng is not None else (0, 0)) for _ in range(depth)]
            specs.append(("gen", [("yf",) + p for p in pp], leaf))
    return specs
