"""Drivers that execute generated programs and call an observer at every suspension (suspended
mode) or let probes fire (running mode).  Pure stdlib, Python 3.9+."""
import linecache
import sys
import zlib

from .shadow import Run, E1, E2, EnterFail, ExitFail, LoopLimit

GEN_PREFIX = "<vgen:"


def register_source(src, tag):
    # the name deliberately contains format-string metacharacters: it ends up in repr(frame) and
    # repr(code), which stackscope interpolates into warning and error messages
    filename = "%s%s{0}{x}%%s:%08x>" % (GEN_PREFIX, tag, zlib.crc32(src.encode()))
    linecache.cache[filename] = (len(src), None, src.splitlines(True), filename)
    return filename


def compile_program(src, tag="p"):
    filename = register_source(src, tag)
    return compile(src, filename, "exec"), filename


def is_generated(frame):
    return frame.f_code.co_filename.startswith(GEN_PREFIX)


ENDS = (E1, E2, EnterFail, ExitFail)


class ObserverBug(BaseException):
    """an exception escaped from the monitor itself (never to be mistaken for program behaviour)"""


def _guard(run, fn):
    def guarded(*a):
        try:
            return fn(*a)
        except BaseException as ex:
            if getattr(run, "observer_error", None) is None:
                import traceback
                run.observer_error = (ex, traceback.format_exc())
            raise ObserverBug(repr(ex))
    return guarded


def _reraise_observer_error(run):
    err = getattr(run, "observer_error", None)
    if err is not None:
        sys.stderr.write(err[1])
        raise ObserverBug(repr(err[0]))


def drive_suspended(code, kind, seed, observe, run=None, max_obs=80, root="f0"):
    """Run f0 of *code*; after every suspension call observe(run, x, value, info) (if given).
    Returns the run (run.trace holds the behavioural trace, run.end the way it ended)."""
    if run is None:
        run = Run(seed, "suspended")
    if observe is not None:
        observe = _guard(run, observe)
    ns = run.namespace()
    ns["__name__"] = "vgen"
    exec(code, ns)
    x = ns[root]()
    run.target = x
    drv = __import__("random").Random(seed * 7919 + 13)
    nobs = 0
    end = None
    info = {"after": "start", "step": 0}

    def pick():
        r = drv.random()
        if nobs == 0 or r < 0.90:
            return "send"
        if r < 0.98:
            return "throw"
        return "genexit"

    try:
        if kind in ("coro", "gen"):
            while True:
                op = pick()
                try:
                    if op == "send":
                        v = x.send(None)
                    elif op == "throw":
                        v = x.throw(E1())
                    else:
                        v = x.throw(GeneratorExit())
                except StopIteration as ex:
                    end = ("return", ex.value)
                    break
                info = {"after": op, "step": nobs}
                run.trace.append(("susp", v))
                nobs += 1
                if observe is not None:
                    observe(run, x, v, info)
                if nobs >= max_obs:
                    end = ("maxobs",)
                    break
        else:  # agen
            done = False
            while not done:
                op = pick()
                if op == "send":
                    aw = x.asend(None)
                elif op == "throw":
                    aw = x.athrow(E1())
                else:
                    aw = x.athrow(GeneratorExit())
                inner = "send"
                while True:
                    try:
                        if inner == "send":
                            v = aw.send(None)
                        else:
                            v = aw.throw(E2())
                    except StopIteration as ex:
                        # the async generator yielded a value and is suspended at the yield
                        info = {"after": op, "step": nobs, "at": "yield"}
                        run.trace.append(("yielded", ex.value))
                        nobs += 1
                        if observe is not None:
                            observe(run, x, ex.value, info)
                        break
                    except StopAsyncIteration:
                        end = ("return", None)
                        done = True
                        break
                    info = {"after": op, "step": nobs, "at": "await", "aw": aw}
                    run.trace.append(("susp", v))
                    nobs += 1
                    if observe is not None:
                        observe(run, x, v, info)
                    inner = "throw" if drv.random() < 0.06 else "send"
                    if nobs >= max_obs:
                        break
                if nobs >= max_obs and not done:
                    end = ("maxobs",)
                    break
    except ENDS as ex:
        end = ("exc", type(ex).__name__)
    except LoopLimit:
        end = ("limit",)
    except GeneratorExit:
        end = ("genexit",)
    except RuntimeError as ex:
        end = ("runtimeerror", str(ex)[:60])
    except StopAsyncIteration:
        end = ("return", None)
    except Exception as ex:  # a bug in the generated program, not in stackscope
        end = ("othererror", repr(ex)[:100])
    finally:
        run.closing = True
        try:
            if kind == "agen":
                x.aclose().send(None)
            else:
                x.close()
        except BaseException:
            pass
    run.end = end
    run.trace.append(("end",) + tuple(end or ()))
    run.nobs = nobs
    _reraise_observer_error(run)
    return run


def drive_running(code, kind, seed, probe_cb, run=None):
    if run is None:
        run = Run(seed, "running")
    if probe_cb is not None:
        gcb = _guard(run, probe_cb)
        run.probe_cb = lambda tag: gcb(run, tag)
    if probe_cb is None:
        # managers consult probe_cb to decide not to suspend; keep that behaviour in twin runs
        run.probe_cb = lambda tag: None
    ns = run.namespace()
    ns["__name__"] = "vgen"
    end = None
    try:
        if kind in ("module", "class"):
            exec(code, ns)
            end = ("return", None)
        else:
            exec(code, ns)
            if kind == "sync":
                end = ("return", ns["f0"]())
            elif kind == "gen":
                g = ns["f0"]()
                run.target = g
                vals = []
                try:
                    while True:
                        vals.append(g.send(None))
                except StopIteration as ex:
                    end = ("return", ex.value)
            elif kind == "coro":
                co = ns["f0"]()
                run.target = co
                try:
                    v = co.send(None)
                    end = ("suspended?!", v)
                    co.close()
                except StopIteration as ex:
                    end = ("return", ex.value)
            else:
                ag = ns["f0"]()
                run.target = ag
                try:
                    ag.asend(None).send(None)
                    end = ("suspended?!",)
                except StopIteration as ex:
                    end = ("yield", ex.value)
                except StopAsyncIteration:
                    end = ("return", None)
    except ENDS as ex:
        end = ("exc", type(ex).__name__)
        if getattr(run, "keep_traceback", False):
            run.tb = ex.__traceback__
    except LoopLimit:
        end = ("limit",)
    except RuntimeError as ex:
        end = ("runtimeerror", str(ex)[:60])
    except Exception as ex:  # a bug in the generated program, not in stackscope
        end = ("othererror", repr(ex)[:100])
    run.end = end
    run.trace.append(("end",) + tuple(end or ()))
    _reraise_observer_error(run)
    return run
