"""Stdlib-skeleton corpus: every function of the running interpreter's standard library that
contains a `with`, reduced to its control-flow skeleton (conditions -> D(), iterables -> R(),
with-items -> shadow managers, simple statements -> observation points, constants in `return`
kept).  Pure stdlib, Python 3.9+."""
import ast
import os
import random
import sys
import sysconfig
import zlib


class Skip(Exception):
    pass


class Skel(object):
    def __init__(self, running, asyncify, kind="coro"):
        self.k = 0
        self.nwith = 0
        self.running = running
        self.asyncify = asyncify
        self.kind = kind

    def nk(self):
        self.k += 1
        return self.k

    def call(self, name, *args):
        return ast.Call(ast.Name(name, ast.Load()), [ast.Constant(a) for a in args], [])

    def sus(self):
        if self.running:
            return [ast.Expr(self.call("P", self.nk()))]
        if self.kind == "gen":
            k = self.nk()
            return [ast.Expr(ast.Yield(self.call("pre", k))), ast.Expr(self.call("post", k))]
        return [ast.Expr(ast.Await(self.call("sus", self.nk())))]

    def block(self, stmts):
        out = []
        last_simple = False
        for s in stmts:
            r = self.stmt(s)
            if r is None:
                if not last_simple:
                    out.extend(self.sus())
                    last_simple = True
                continue
            last_simple = False
            out.extend(r if isinstance(r, list) else [r])
        if not out:
            out = [ast.Pass()]
        return out

    def exc(self, node):
        name = ast.unparse(node) if node is not None else ""
        return "E1" if zlib.crc32(name.encode()) % 2 == 0 else "E2"

    def stmt(self, s):
        if isinstance(s, (ast.With, ast.AsyncWith)):
            isasync = (isinstance(s, ast.AsyncWith) or self.asyncify) and self.kind != "gen"
            items = []
            for it in s.items:
                self.nwith += 1
                k = self.nk()
                tgt = ast.Name("v%d" % k, ast.Store()) if it.optional_vars is not None else None
                items.append(ast.withitem(self.call("A" if isasync else "S", k), tgt))
            cls = ast.AsyncWith if isasync else ast.With
            return cls(items, self.block(s.body))
        if isinstance(s, ast.If):
            return ast.If(self.call("D"), self.block(s.body), self.block(s.orelse) if s.orelse else [])
        if isinstance(s, (ast.For, ast.AsyncFor)):
            return ast.For(ast.Name("_i", ast.Store()), self.call("R"), self.block(s.body),
                           self.block(s.orelse) if s.orelse else [])
        if isinstance(s, ast.While):
            const_true = isinstance(s.test, ast.Constant) and bool(s.test.value)
            guard = ast.If(self.call("TL"), [ast.Raise(self.call("LoopLimit"), None)], [])
            body = [guard] + self.block(s.body)
            return ast.While(ast.Constant(True) if const_true else self.call("D"), body,
                             self.block(s.orelse) if s.orelse else [])
        if isinstance(s, ast.Try):
            hs = []
            for h in s.handlers:
                hs.append(ast.ExceptHandler(
                    ast.Name(self.exc(h.type), ast.Load()) if h.type is not None else None, h.name,
                    ([ast.Expr(self.call("CHK"))] if h.type is None else []) + self.block(h.body)))
            return ast.Try(self.block(s.body), hs, self.block(s.orelse) if s.orelse else [],
                           self.block(s.finalbody) if s.finalbody else [])
        if isinstance(s, ast.Return):
            if s.value is None:
                return ast.Return(None)
            if self.kind == "agen":
                return ast.Return(None)
            if isinstance(s.value, ast.Constant) and isinstance(s.value.value, (int, str, bool, type(None))):
                return ast.Return(ast.Constant(s.value.value))
            return ast.Return(self.call("V"))
        if isinstance(s, ast.Raise):
            if s.exc is None:
                return ast.Raise(None, None)
            return ast.Raise(self.call(self.exc(s.exc)), None)
        if isinstance(s, (ast.Break, ast.Continue, ast.Pass)):
            return type(s)()
        if isinstance(s, ast.Assert):
            return ast.If(self.call("D"), [ast.Raise(self.call("E1"), None)], [])
        if hasattr(ast, "Match") and isinstance(s, ast.Match):
            cases = []
            for n, c in enumerate(s.cases):
                last = n == len(s.cases) - 1
                pat = ast.MatchAs(None, None) if (last and isinstance(c.pattern, ast.MatchAs) and c.pattern.pattern is None) \
                    else ast.MatchValue(ast.Constant(n))
                cases.append(ast.match_case(pat, None, self.block(c.body)))
            return ast.Match(self.call("M"), cases)
        if hasattr(ast, "TryStar") and isinstance(s, ast.TryStar):
            raise Skip("trystar")
        return None  # simple statement -> observation point


def has_direct_with(fn):
    def visit(n):
        for ch in ast.iter_child_nodes(n):
            if isinstance(ch, (ast.FunctionDef, ast.AsyncFunctionDef, ast.Lambda, ast.ClassDef)):
                continue
            if isinstance(ch, (ast.With, ast.AsyncWith)):
                return True
            if visit(ch):
                return True
        return False

    return visit(fn)


def skeletons(tree, running, asyncify, kind="coro"):
    for n in ast.walk(tree):
        if isinstance(n, (ast.FunctionDef, ast.AsyncFunctionDef)) and has_direct_with(n):
            sk = Skel(running, asyncify, kind)
            try:
                body = sk.block(n.body)
            except Skip:
                continue
            if kind == "gen" and not any(isinstance(x, (ast.Yield, ast.YieldFrom)) for b in body for x in ast.walk(b)):
                # a body made of compound statements only got no suspension point: without a yield the
                # skeleton would not be a generator at all
                k = sk.nk()
                body = [ast.Expr(ast.Yield(sk.call("pre", k))), ast.Expr(sk.call("post", k))] + body
            args = ast.arguments([], [], None, [], [], None, [])
            if kind in ("coro", "agen"):
                f = ast.AsyncFunctionDef("f0", args, body, [], None)
            else:
                f = ast.FunctionDef("f0", args, body, [], None)
            if sys.version_info >= (3, 12):
                f.type_params = []
            m = ast.Module([f], [])
            ast.fix_missing_locations(m)
            try:
                src = ast.unparse(m)
            except Exception:
                continue
            yield n.name, n.lineno, src, sk.nwith


def stdlib_files(seed=0):
    root = sysconfig.get_paths()["stdlib"]
    files = []
    for dp, dn, fn in os.walk(root):
        if "site-packages" in dp or "/test" in dp[len(root):] or "lib2to3/tests" in dp:
            continue
        for f in fn:
            if f.endswith(".py"):
                files.append(os.path.join(dp, f))
    files.sort()
    random.Random(seed).shuffle(files)
    return root, files


def corpus(seed, start, count, running, asyncify, kind="coro"):
    """yield (label, src) for skeletons number start..start+count-1 of the shuffled corpus"""
    root, files = stdlib_files(seed)
    n = 0
    for p in files:
        try:
            with open(p, "rb") as f:
                tree = ast.parse(f.read())
        except Exception:
            continue
        for name, ln, src, nwith in skeletons(tree, running, asyncify, kind):
            if n >= start + count:
                return
            if n >= start:
                yield (p[len(root):], name, ln), src
            n += 1
