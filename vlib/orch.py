"""Orchestrator side of the verification framework (runs under /venv/bin/python 3.12).

A *check* is a module ``checks/cNN.py`` exposing

    PROPERTY = "CNN"; LEVEL = "exploration" | "fault_enumeration"
    RULE = "<how cases are generated and what makes one non-trivial / distinct>"
    def plan(tier, seed) -> list[dict]          # shard specs (JSON-able); may name "interp"
    def worker(spec) -> dict                    # runs inside the shard subprocess
    MIN_NONTRIVIAL = {"quick": n, "thorough": n}   # below this the run is INCONCLUSIVE
    REQUIRED_COUNTERS = {"name": min, ...}      # deciding monitors that must have fired

The orchestrator fans shards out to subprocesses (never multiprocessing.Pool), each importing
stackscope from /repo's working tree with STACKSCOPE_VERIF=1, aggregates their JSON results,
classifies violations against known_findings.json, writes evidence/<ID>.json and exits
0 (held on what was observed) / 1 (VIOLATION) / 2 (INCONCLUSIVE).
"""
from __future__ import annotations

import concurrent.futures
import importlib
import json
import os
import shutil
import signal
import subprocess
import sys
import time
import zipfile

VERIF = os.path.dirname(os.path.dirname(os.path.abspath(__file__)))
REPO = os.environ.get("VERIF_REPO", "/repo")
WORK = os.environ.get("VERIF_WORK") or os.path.join(VERIF, ".work")
DEPS = os.path.join(VERIF, ".deps")
WHEELS = "/opt/veriftools/wheels"
GUARD = "STACKSCOPE_VERIF"

INTERPRETERS = {
    "3.12": "/venv/bin/python",
    "3.11": "/root/.pyenv/versions/3.11.7/bin/python3",
    "3.10": "/root/.pyenv/versions/3.10.13/bin/python3",
    "3.9": "/root/.pyenv/versions/3.9.18/bin/python3",
}
MANDATORY = "3.12"


def _unpack(prefixes, target, marker):
    if os.path.exists(os.path.join(target, marker)):
        return
    os.makedirs(target, exist_ok=True)
    for name in sorted(os.listdir(WHEELS)):
        if name.endswith(".whl") and any(name.startswith(p) for p in prefixes):
            tmp = target + ".tmp%d" % os.getpid()
            with zipfile.ZipFile(os.path.join(WHEELS, name)) as zf:
                zf.extractall(tmp)
            for entry in os.listdir(tmp):
                dst = os.path.join(target, entry)
                if not os.path.exists(dst):
                    try:
                        os.rename(os.path.join(tmp, entry), dst)
                    except OSError:
                        pass
            shutil.rmtree(tmp, ignore_errors=True)


def ensure_deps() -> None:
    """Idempotent, offline: unpack the pure-python typing_extensions wheel for the pyenv
    interpreters and icontract (+asttokens, six) for the contract-based monitors.
    (The exceptiongroup stand-in is a committed 5-line file.)"""
    try:
        _unpack(["icontract-", "asttokens-", "six-"], os.path.join(DEPS, "contracts"), "icontract")
    except Exception:
        pass  # contracts are an extra monitor; checks record when they are unavailable
    target = os.path.join(DEPS, "compat")
    marker = os.path.join(target, "typing_extensions.py")
    if os.path.exists(marker):
        return
    os.makedirs(target, exist_ok=True)
    for name in sorted(os.listdir(WHEELS)):
        if name.startswith("typing_extensions-") and name.endswith(".whl"):
            tmp = target + ".tmp%d" % os.getpid()
            with zipfile.ZipFile(os.path.join(WHEELS, name)) as zf:
                zf.extractall(tmp)
            for entry in os.listdir(tmp):
                dst = os.path.join(target, entry)
                if not os.path.exists(dst):
                    try:
                        os.rename(os.path.join(tmp, entry), dst)
                    except OSError:
                        pass
            shutil.rmtree(tmp, ignore_errors=True)
            return
    raise RuntimeError("typing_extensions wheel not found in " + WHEELS)


def available_interpreters() -> dict:
    return {k: v for k, v in INTERPRETERS.items() if os.path.exists(v)}


def worker_env(interp: str, extra: dict | None = None) -> dict:
    env = dict(os.environ)
    path = [VERIF, REPO]
    if interp == "3.12":
        path.append(os.path.join(DEPS, "contracts"))
    if interp != "3.12":
        path.append(os.path.join(DEPS, "compat"))
        if interp in ("3.9", "3.10"):
            path.append(os.path.join(VERIF, "vlib", "compat_shim"))
    env["PYTHONPATH"] = os.pathsep.join(path)
    env["PYTHONHASHSEED"] = "0"
    env["PYTHONDONTWRITEBYTECODE"] = "1"
    env[GUARD] = "1"
    env.pop("PYTHONSTARTUP", None)
    if extra:
        env.update({k: str(v) for k, v in extra.items()})
    return env


def run_shard(check_id: str, idx: int, spec: dict, workdir: str, timeout: float) -> dict:
    interp = spec.get("interp", "3.12")
    exe = INTERPRETERS[interp]
    spec_path = os.path.join(workdir, "shard_%04d.spec.json" % idx)
    out_path = os.path.join(workdir, "shard_%04d.out.json" % idx)
    err_path = os.path.join(workdir, "shard_%04d.stderr" % idx)
    with open(spec_path, "w") as f:
        json.dump(spec, f)
    if os.path.exists(out_path):
        os.unlink(out_path)
    cmd = list(spec.get("wrapper", [])) + [
        exe, "-X", "faulthandler", "-m", "vlib.worker", "checks." + check_id.lower(),
        spec_path, out_path,
    ]
    t0 = time.time()
    status = {"idx": idx, "spec": spec, "spec_path": spec_path, "stderr_path": err_path}
    try:
        with open(err_path, "wb") as errf:
            p = subprocess.run(
                cmd, cwd=VERIF, env=worker_env(interp, spec.get("env")), stdout=errf,
                stderr=subprocess.STDOUT, timeout=spec.get("timeout", timeout),
            )
        status["returncode"] = p.returncode
    except subprocess.TimeoutExpired:
        status["returncode"] = None
        status["timeout"] = True
    status["wall_s"] = time.time() - t0
    if os.path.exists(out_path):
        try:
            with open(out_path) as f:
                status["result"] = json.load(f)
        except Exception as ex:  # truncated output
            status["result_error"] = repr(ex)
    return status


def stderr_tail(path: str, n: int = 60) -> str:
    try:
        with open(path, "rb") as f:
            data = f.read()
        return b"\n".join(data.splitlines()[-n:]).decode("utf-8", "replace")
    except OSError:
        return ""


def load_known_findings() -> list:
    path = os.path.join(VERIF, "known_findings.json")
    if not os.path.exists(path):
        return []
    with open(path) as f:
        data = json.load(f)
    return data.get("findings", [])


def classify(prop: str, witness: dict, findings: list):
    """Return the active known-finding entry whose mechanism classifier accepts *witness*.
    A violation carries ``mechanism`` (set by the monitor from facts of the witness: interpreter,
    bytecode shape, input class, history shape) — never a seed or hash."""
    for entry in findings:
        if entry.get("status") != "open" or entry.get("property") != prop:
            continue
        if witness.get("mechanism") and witness.get("mechanism") == entry.get("mechanism"):
            return entry
    return None


def main_check(check_id: str, tier: str, replay: str | None = None) -> int:
    t0 = time.time()
    seed = int(os.environ.get("VERIF_SEED", "0") or 0)
    ensure_deps()
    mod = importlib.import_module("checks." + check_id.lower())
    workdir = os.path.join(WORK, check_id)
    shutil.rmtree(workdir, ignore_errors=True)
    os.makedirs(workdir, exist_ok=True)
    interps = available_interpreters()
    if MANDATORY not in interps:
        print("INCONCLUSIVE property=%s reason=mandatory interpreter 3.12 missing" % check_id)
        return 2

    if replay:
        with open(replay) as f:
            rep = json.load(f)
        shards = [rep["spec"]]
    else:
        shards = mod.plan(tier, seed)
    skipped_interps = sorted({s.get("interp", "3.12") for s in shards} - set(interps))
    shards = [s for s in shards if s.get("interp", "3.12") in interps]

    default_timeout = getattr(mod, "SHARD_TIMEOUT", {"quick": 300, "thorough": 3600})[tier]
    if tier == "thorough" and not os.environ.get("VERIF_BUDGET_SCALE"):
        os.environ["VERIF_BUDGET_SCALE"] = "0.4"
    jobs = int(os.environ.get("VERIF_JOBS", "16"))
    statuses = []
    with concurrent.futures.ThreadPoolExecutor(max_workers=jobs) as pool:
        futs = [
            pool.submit(run_shard, check_id, i, s, workdir, default_timeout)
            for i, s in enumerate(shards)
        ]
        for fu in futs:
            statuses.append(fu.result())

    findings = load_known_findings()
    evaluations = 0
    distinct = set()
    counters: dict = {}
    samples = []
    violations = []
    inconclusive = []
    per_interp: dict = {}
    for st in statuses:
        spec = st["spec"]
        interp = spec.get("interp", "3.12")
        res = st.get("result")
        rc = st.get("returncode")
        if res is None or not res.get("complete"):
            tail = stderr_tail(st["stderr_path"], 400)
            if st.get("timeout"):
                inconclusive.append({"shard": st["idx"], "reason": "watchdog timeout", "spec": spec})
            elif rc is not None and rc < 0:
                # killed by a signal: crash.  The check decides how to attribute it.
                attr = getattr(mod, "classify_crash", default_classify_crash)(spec, -rc, tail)
                if attr is None:
                    inconclusive.append({"shard": st["idx"], "reason": "signal %d outside stackscope" % -rc,
                                         "spec": spec, "stderr_tail": tail[-2000:]})
                else:
                    attr.setdefault("spec", spec)
                    attr.setdefault("stderr_tail", tail[-3000:])
                    violations.append(attr)
            else:
                inconclusive.append({"shard": st["idx"], "reason": "worker failed rc=%r" % rc,
                                     "spec": spec, "stderr_tail": tail[-3000:]})
            if res is None:
                continue
        evaluations += int(res.get("evaluations", 0))
        distinct.update(res.get("distinct", []))
        for k, v in res.get("counters", {}).items():
            counters[k] = max(counters.get(k, 0), v) if k.startswith("max_") else counters.get(k, 0) + v
        pi = per_interp.setdefault(interp, {"shards": 0, "evaluations": 0})
        pi["shards"] += 1
        pi["evaluations"] += int(res.get("evaluations", 0))
        if len(samples) < 6:
            samples.extend(res.get("samples", [])[: max(1, 6 - len(samples))])
        for v in res.get("violations", []):
            v.setdefault("spec", spec)
            v.setdefault("interp", interp)
            violations.append(v)
        for inc in res.get("inconclusive", []):
            inconclusive.append({"shard": st["idx"], "reason": inc, "spec": spec})

    # thresholds: the deciding monitors must actually have fired
    min_nt = getattr(mod, "MIN_NONTRIVIAL", {"quick": 2, "thorough": 2})[tier]
    if not replay:
        if len(distinct) < min_nt:
            inconclusive.append({"reason": "only %d distinct non-trivial cases (< %d)" % (len(distinct), min_nt)})
        for name, need in getattr(mod, "REQUIRED_COUNTERS", {}).items():
            if isinstance(need, dict):
                need = need[tier]
            if counters.get(name, 0) < need:
                inconclusive.append({"reason": "monitor counter %s=%d < %d" % (name, counters.get(name, 0), need)})

    # classify violations
    real = []
    known_hit: dict = {}
    for v in violations:
        entry = classify(check_id, v, findings)
        if entry is not None:
            known_hit.setdefault(entry["id"], []).append(v)
        else:
            real.append(v)
    for entry in findings:
        if entry.get("status") == "open" and entry.get("property") == check_id:
            hits = known_hit.get(entry["id"], [])
            print("KNOWN-FINDING: property=%s %s [%s; %d witness(es) this run]" % (
                check_id, entry["what"], entry["id"], len(hits)))

    replay_paths = []
    for i, v in enumerate(real[:20]):
        path = os.path.join(workdir, "replay_%02d.json" % i)
        with open(path, "w") as f:
            json.dump({"property": check_id, "tier": tier, "seed": seed, "spec": v.get("spec"),
                       "witness": v}, f, indent=1, default=repr)
        replay_paths.append(path)

    wall = time.time() - t0
    coverage = {
        "evaluations": evaluations,
        "distinct_nontrivial": len(distinct),
        "rule": getattr(mod, "RULE", ""),
        "samples": samples[:6] or ["<none>"],
        "exhaustive": bool(getattr(mod, "EXHAUSTIVE", {}).get(tier, False)) if hasattr(mod, "EXHAUSTIVE") else False,
        "counters": counters,
        "shards": len(statuses),
        "interpreters": per_interp,
        "interpreters_skipped": skipped_interps,
        "known_finding_witnesses": {k: len(v) for k, v in known_hit.items()},
        "inconclusive": inconclusive[:10],
        "verdict": "violated" if real else ("inconclusive" if inconclusive else "held on what was observed"),
    }
    if hasattr(mod, "extra_coverage"):
        coverage.update(mod.extra_coverage(statuses))
    evidence = {
        "property_id": check_id,
        "tier": tier,
        "seed": seed,
        "level": getattr(mod, "LEVEL", "exploration"),
        "coverage": coverage,
        "assumptions": list(getattr(mod, "ASSUMPTIONS", [])),
        "wall_s": round(wall, 2),
        "violations": len(real),
    }
    if not replay and not os.environ.get("VERIF_NO_EVIDENCE"):
        os.makedirs(os.path.join(VERIF, "evidence"), exist_ok=True)
        tmp = os.path.join(VERIF, "evidence", check_id + ".json.tmp")
        with open(tmp, "w") as f:
            json.dump(evidence, f, indent=1, default=repr)
        os.replace(tmp, os.path.join(VERIF, "evidence", check_id + ".json"))
        if tier == "thorough":
            # keep a copy: the canonical file is rewritten by the next quick run
            os.makedirs(os.path.join(VERIF, "evidence", "thorough"), exist_ok=True)
            shutil.copyfile(os.path.join(VERIF, "evidence", check_id + ".json"),
                            os.path.join(VERIF, "evidence", "thorough", check_id + ".json"))

    print("%s tier=%s seed=%d shards=%d evaluations=%d distinct_nontrivial=%d wall=%.1fs" % (
        check_id, tier, seed, len(statuses), evaluations, len(distinct), wall))
    print("counters: " + json.dumps(counters, sort_keys=True))
    if real:
        for v, p in zip(real, replay_paths):
            print("witness: " + json.dumps({k: v[k] for k in v if k not in ("spec", "stderr_tail")},
                                           default=repr)[:700])
        for p in replay_paths:
            print("VIOLATION property=%s replay=%s" % (check_id, p))
        if len(real) > len(replay_paths):
            print("(+%d more violations not written out)" % (len(real) - len(replay_paths)))
        return 1
    if inconclusive:
        for inc in inconclusive[:4]:
            tail = inc.pop("stderr_tail", "") if isinstance(inc, dict) else ""
            print("INCONCLUSIVE property=%s %s" % (check_id, json.dumps(inc, default=repr)[:500]))
            if tail:
                print("   stderr tail: " + tail[-600:].replace("\n", "\n      "))
        return 2
    print("HELD property=%s on what was observed" % check_id)
    return 0


def default_classify_crash(spec: dict, signum: int, tail: str):
    """A worker that dies on a signal is a violation when the faulthandler dump shows a
    stackscope frame on any thread; otherwise inconclusive (returns None)."""
    if "stackscope/" in tail or "stackscope\\" in tail:
        return {"kind": "crash", "signal": signum,
                "detail": "worker killed by signal %d with stackscope frames on a thread" % signum}
    return None
