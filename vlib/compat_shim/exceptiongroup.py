class ExceptionGroup(Exception):
    def __init__(self, msg, excs):
        super().__init__(msg, excs)
        self.message = msg
        self.exceptions = tuple(excs)
