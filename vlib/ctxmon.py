"""Monitors that compare stackscope's reported contexts with the shadow-log fold.
Pure stdlib, Python 3.9+."""
import ast
import sys
import warnings

import stackscope
from stackscope import lowlevel as ll
from stackscope._lowlevel import InspectionWarning

from .drive import is_generated


def brief_ctx(c):
    o = c.obj
    return (repr(o) if o is not None else None, c.is_async, c.is_exiting, c.varname, c.start_line)


def brief_truth(t):
    return [(repr(m), a, e) for m, a, e in t]


def insp_warnings(wlist):
    return [str(w.message)[:160] for w in wlist if issubclass(w.category, InspectionWarning)]


class WithIndex(object):
    """ast-derived facts about the with statements of a generated source: manager serial k ->
    (with keyword line, target source or None, is_async, item index)."""

    def __init__(self, src):
        self.by_k = {}
        tree = ast.parse(src)
        for node in ast.walk(tree):
            if isinstance(node, (ast.With, ast.AsyncWith)):
                for idx, item in enumerate(node.items):
                    call = item.context_expr
                    if isinstance(call, ast.Call) and call.args and isinstance(call.args[0], ast.Constant):
                        k = call.args[0].value
                        self.by_k[k] = {
                            "line": node.lineno,
                            "item_line": call.lineno,
                            "target": item.optional_vars,
                            "is_async": isinstance(node, ast.AsyncWith),
                            "idx": idx,
                            "nitems": len(node.items),
                        }


def norm_target(node):
    """dump of a target expression with Store->Load and List->Tuple (the bytecode cannot tell
    `[a, b]` from `(a, b)`)."""

    class T(ast.NodeTransformer):
        def visit_List(self, n):
            self.generic_visit(n)
            return ast.Tuple(elts=n.elts, ctx=ast.Load())

        def generic_visit(self, n):
            n = super(T, self).generic_visit(n)
            if hasattr(n, "ctx"):
                n.ctx = ast.Load()
            return n

    import copy

    return ast.dump(T().visit(copy.deepcopy(node)))


def target_supported(node):
    """documented supported set: names, attributes, subscripts by constants or names,
    positional-only calls, (starred) tuple/list unpacking"""
    if isinstance(node, ast.Name):
        return True
    if isinstance(node, ast.Attribute):
        return target_supported(node.value)
    if isinstance(node, ast.Starred):
        return target_supported(node.value)
    if isinstance(node, (ast.Tuple, ast.List)):
        return all(target_supported(e) for e in node.elts)
    if isinstance(node, ast.Call):
        return not node.keywords and target_supported(node.func) and all(
            isinstance(a, (ast.Constant, ast.Name)) for a in node.args)
    if isinstance(node, ast.Subscript):
        sl = node.slice
        if isinstance(sl, ast.Index):  # pragma: no cover (3.8)
            sl = sl.value
        if isinstance(sl, ast.Constant) and not isinstance(sl.value, tuple):
            return target_supported(node.value)
        if isinstance(sl, ast.Name):
            return target_supported(node.value)
        return False
    return False


def check_meta(ctx, frame, mgr, windex):
    """C08 oracle for one reported context; returns a problem string or None."""
    facts = windex.by_k.get(getattr(mgr, "k", None))
    if facts is None:
        return None
    if ctx.start_line != facts["line"]:
        return "start_line %r != with line %r (item on line %r)" % (ctx.start_line, facts["line"], facts["item_line"])
    tgt = facts["target"]
    vn = ctx.varname
    if tgt is not None and target_supported(tgt):
        if vn is None:
            return "supported target %s rendered as None" % ast.dump(tgt)[:80]
    if vn is None:
        return None
    try:
        got = norm_target(ast.parse(vn, mode="eval").body)
    except SyntaxError:
        return "varname %r does not parse" % (vn,)
    if tgt is not None and got == norm_target(tgt):
        return None
    # fallback allowed only when the item has no reconstructible target: name of a local
    # currently bound to the manager object
    reconstructible = tgt is not None and target_supported(tgt)
    if not reconstructible and vn in frame.f_locals and frame.f_locals[vn] is mgr:
        return None
    return "varname %r is neither the target %s nor a local bound to the manager" % (
        vn, ast.dump(tgt)[:80] if tgt is not None else None)


def compare_exact(got_ctxs, exp):
    got = [(c.obj, c.is_async, c.is_exiting) for c in got_ctxs]
    if len(got) != len(exp):
        return "length %d != %d" % (len(got), len(exp))
    for i, (g, e) in enumerate(zip(got, exp)):
        if g[0] is not e[0]:
            return "obj at %d is %r, expected %r" % (i, g[0], e[0])
        if g[1] != e[1]:
            return "is_async at %d" % i
        if g[2] != e[2]:
            return "is_exiting at %d is %r" % (i, g[2])
    return None


def compare_overapprox(got_ctxs, exp, in_progress):
    """C20: every truly active manager present in order with the right obj/is_async; an
    is_exiting entry exactly when an exit is in progress (and last); extras only entering/exiting
    managers of this frame."""
    exiting_exp = [e for e in exp if e[2]]
    got_exiting = [c for c in got_ctxs if c.is_exiting]
    if len(got_exiting) != len(exiting_exp):
        return "is_exiting entries: %d, expected %d" % (len(got_exiting), len(exiting_exp))
    if got_exiting:
        if got_ctxs[-1] is not got_exiting[0]:
            return "is_exiting entry not last"
        if got_exiting[0].is_async != exiting_exp[0][1]:
            return "is_exiting entry has wrong is_async"
        if got_exiting[0].obj is not None and got_exiting[0].obj is not exiting_exp[0][0]:
            return "is_exiting entry names the wrong manager"
    want = [e for e in exp if not e[2]]
    rest = [c for c in got_ctxs if not c.is_exiting]
    j = 0
    extras = []
    for c in rest:
        if j < len(want) and c.obj is want[j][0]:
            if c.is_async != want[j][1]:
                return "is_async wrong for %r" % (c.obj,)
            j += 1
        else:
            extras.append(c)
    if j != len(want):
        return "active manager %r missing or out of order" % (want[j][0],)
    for c in extras:
        if not any(c.obj is m for m in in_progress):
            return "extra entry %r is not a manager this frame is entering or exiting" % (c.obj,)
    return None


def value_signature(stack, depth=0):
    """identity-and-flags signature of a whole result tree (frames, contexts, inner stacks, children): what a
    result *is*, to be compared with itself later - results are values and must not change when a later
    extraction runs"""
    if depth > 12:
        return ("...",)

    def ctx(c):
        kids = []
        for ch in c.children:
            kids.append(ctx(ch) if isinstance(ch, stackscope.Context) else value_signature(ch, depth + 1))
        return (id(c.obj), c.is_async, c.is_exiting, c.varname, c.start_line, c.description, c.hide,
                value_signature(c.inner_stack, depth + 1) if c.inner_stack is not None else None, tuple(kids))

    return (tuple((id(f.pyframe), f.lineno, f.hide, f.hide_line, tuple(ctx(c) for c in f.contexts)) for f in stack.frames),
            id(stack.leaf) if stack.leaf is not None else None, id(stack.error) if stack.error is not None else None)
