"""Logical-step guard against extractions that never finish.

``extract`` is eager: if a change to the library makes the unwrapping of a finite object chain cyclic in a way
the library's own loop guard does not see (each turn of the cycle yields a frame), the call never returns and
the shard would end in the watchdog, i.e. inconclusive.  The guard counts calls that ``extract_iter`` makes to
``unwrap_stackitem`` since the harness last called ``reset()`` and raises ``Runaway`` (a BaseException, so the
library's ``except Exception`` blocks do not swallow it) past a limit that no finite workload item comes near
(the harness records the largest count it saw on completed items as ``max_unwrap_steps_per_item``).  The verdict
is on steps, never on time."""


class Runaway(BaseException):
    pass


class Guard(object):
    def __init__(self, limit):
        self.limit = limit
        self.n = 0
        self.max_seen = 0

    def reset(self):
        if self.n > self.max_seen:
            self.max_seen = self.n
        self.n = 0


def install(limit):
    from stackscope import _extract as EX
    real = EX.unwrap_stackitem
    guard = Guard(limit)

    def counted_unwrap_stackitem(item):
        guard.n += 1
        if guard.n > guard.limit:
            raise Runaway("more than %d unwrap steps for one finite workload item" % guard.limit)
        return real(item)

    EX.unwrap_stackitem = counted_unwrap_stackitem
    return guard
