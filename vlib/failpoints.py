"""Source-free line failpoints: raise an exception at the k-th executed line (statement start)
inside a chosen set of code objects.  sys.monitoring LINE events on 3.12+, sys.settrace line
events on 3.9-3.11.  Pure stdlib."""
import sys
import types


def nested_codes(code):
    out = [code]
    for c in code.co_consts:
        if isinstance(c, types.CodeType):
            out.extend(nested_codes(c))
    return out


def codes_of(*funcs):
    out = []
    for f in funcs:
        f = getattr(f, "__wrapped__", f)
        code = getattr(f, "__code__", None)
        if code is None and isinstance(f, types.CodeType):
            code = f
        if code is not None:
            out.extend(nested_codes(code))
    return out


import os as _os
_NO_RAISE = bool(_os.environ.get("FAILPOINT_NO_RAISE"))   # diagnosis only: count and "fire" without raising


# Before 3.12 the failpoint is an exception raised *by the sys.settrace callback* at a line event.  CPython 3.11
# has been seen to segfault inside its own tracing/`dis` code after some 10^5 such raises in one process (with
# the raise suppressed the same workload runs clean; see DESIGN.md), so workloads on those interpreters stop
# injecting once a per-process budget is used up.  3.12+ uses sys.monitoring and has no such limit.
RAISED_FROM_TRACE_FUNCTION = [0]
SKIPPED_IN_GENERATOR_CLOSE = [0]
SETTRACE_RAISE_BUDGET = 25000


def injection_budget_left():
    return sys.version_info >= (3, 12) or RAISED_FROM_TRACE_FUNCTION[0] < SETTRACE_RAISE_BUDGET


class InjectedFault(Exception):
    """unique instances; identity is what the oracle looks for"""


class LineFailpoints(object):
    def __init__(self, codes, gate=None):
        self.codes = set(codes)
        self.gate = gate or (lambda: True)
        self.count = 0
        self.target = None
        self.exc = None
        self.fired = False
        self.fired_at = None
        self._tool = None

    # -- 3.12 -----------------------------------------------------------------------------
    def _mon_line(self, code, lineno):
        if not self.gate():
            return None
        self.count += 1
        if self.target is not None and self.count == self.target and not self.fired:
            self.fired = True
            self.fired_at = (code.co_name, lineno)
            raise self.exc
        return None

    # -- settrace -------------------------------------------------------------------------
    def _glob(self, frame, event, arg):
        if frame.f_code in self.codes:
            return self._loc
        return None

    def _loc(self, frame, event, arg):
        if event == "exception" and arg and arg[0] is GeneratorExit:
            # a generator that is being closed - typically from its deallocation, when a consumer stopped early
            self._closing = frame
        elif event == "line" and self.gate():
            self.count += 1
            if self.target is not None and self.count == self.target and not self.fired:
                if getattr(self, "_closing", None) is frame:
                    # Not a fault site on interpreters older than 3.12: an exception raised by a trace function
                    # while CPython finalises a generator ("Exception ignored in: <generator ...>") was followed
                    # by bus errors / segfaults inside unrelated stdlib code on 3.11 (see DESIGN.md).  The run stays
                    # fault-free; 3.12 (sys.monitoring) keeps these sites.
                    SKIPPED_IN_GENERATOR_CLOSE[0] += 1
                    self.target = None
                    return self._loc
                self.fired = True
                self.fired_at = (frame.f_code.co_name, frame.f_lineno)
                if not _NO_RAISE:
                    RAISED_FROM_TRACE_FUNCTION[0] += 1
                    raise self.exc
        return self._loc

    def call(self, fn, k=None, exc=None):
        """run fn() with a fault at the k-th line event (k=None: just count).  Returns
        (value, raised_exception_or_None, number_of_line_events)."""
        self.count = 0
        self.target = k
        self.exc = exc
        self.fired = False
        self.fired_at = None
        self._closing = None
        value = None
        raised = None
        if sys.version_info >= (3, 12):
            mon = sys.monitoring
            tool = 3
            mon.use_tool_id(tool, "verif-failpoints")
            try:
                mon.register_callback(tool, mon.events.LINE, self._mon_line)
                for c in self.codes:
                    mon.set_local_events(tool, c, mon.events.LINE)
                try:
                    value = fn()
                except BaseException as ex:  # noqa
                    raised = ex
            finally:
                for c in self.codes:
                    mon.set_local_events(tool, c, 0)
                mon.register_callback(tool, mon.events.LINE, None)
                mon.free_tool_id(tool)
        else:
            old = sys.gettrace()
            sys.settrace(self._glob)
            try:
                try:
                    value = fn()
                except BaseException as ex:  # noqa
                    raised = ex
            finally:
                sys.settrace(old)
        return value, raised, self.count
