"""Shard entry point: ``python -m vlib.worker checks.cNN spec.json out.json``.
Pure stdlib and Python 3.9 compatible (runs under every interpreter of the property)."""
import importlib
import json
import os
import sys
import faulthandler
import traceback
import zlib


class Result(object):
    """Accumulates what a monitor observed in one shard."""

    def __init__(self):
        self.evaluations = 0
        self.distinct = set()
        self.counters = {}
        self.samples = []
        self.violations = []
        self.inconclusive = []

    def count(self, name, n=1):
        self.counters[name] = self.counters.get(name, 0) + n

    def nontrivial(self, *key):
        self.distinct.add(zlib.crc32(repr(key).encode("utf-8", "replace")))

    def sample(self, s, limit=3):
        if len(self.samples) < limit:
            self.samples.append(s)

    def violation(self, **witness):
        self.count("violations")
        if len(self.violations) < 25:
            self.violations.append(witness)

    def as_dict(self):
        return {
            "complete": True,
            "evaluations": self.evaluations,
            "distinct": sorted(self.distinct),
            "counters": self.counters,
            "samples": self.samples,
            "violations": self.violations,
            "inconclusive": self.inconclusive,
        }


def main(argv):
    modname, spec_path, out_path = argv[1:4]
    faulthandler.enable(all_threads=True)
    with open(spec_path) as f:
        spec = json.load(f)
    mod = importlib.import_module(modname)
    res = mod.worker(spec)
    if hasattr(res, "as_dict"):
        res = res.as_dict()
    tmp = out_path + ".tmp"
    with open(tmp, "w") as f:
        json.dump(res, f, default=repr)
    os.replace(tmp, out_path)


if __name__ == "__main__":
    main(sys.argv)
