"""Shadow managers, event log and the ground-truth fold.  Pure stdlib, Python 3.9+.

Ground truth for "which managers are active in activation a right now" is a fold over an event
log written by the managers themselves:
    es  enter started        ee  enter returned (logged as the last action before `return`)
    xs  exit started         xe  exit finished  (logged in a `finally`, last action)
entered  = ee seen and xe not;  exiting = xs seen and xe not;  entering = es seen, ee/xe not.
Every manager object is unique, so an observed Context.obj identifies exactly one log entry.
"""
import sys
import types
import random


class LoopLimit(BaseException):
    """Raised by observation points once the step budget is used up (BaseException so that
    generated `except Exception` handlers do not swallow it)."""


class E1(Exception):
    pass


class E2(Exception):
    pass


class EnterFail(Exception):
    pass


class ExitFail(Exception):
    pass


@types.coroutine
def _trap(v):
    return (yield v)


class _NS(object):
    """Attribute bag used as a target root (NS.a, NS.sub.b ...)."""


def build_value(shape):
    """shape: None -> caller returns the manager itself; 1 -> fresh object; tuple -> tuple."""
    if shape == 1:
        return object()
    return tuple(build_value(s) for s in shape)


class Run(object):
    def __init__(self, seed, mode, max_steps=50):
        self.rng = random.Random(seed)
        self.seed = seed
        self.mode = mode  # 'suspended' | 'running'
        self.log = []
        self.steps = 0
        self.max_steps = max_steps
        self.closing = False
        self.probe_cb = None  # running mode: called at every probe point with a tag
        self.trace = []  # behavioural trace for twin runs (C06)
        self.p_exc = 0.05
        self.p_swallow = 0.15
        self.p_enterfail = 0.025
        self.p_exitfail = 0.025
        self.p_falsy = 0.06
        self.p_mgr_suspend = 0.75
        self.nmgr = 0
        # managers whose exit method is an alias of a differently named function; the documented
        # limitation of the *referents* analysis excludes them, so C20's referents leg switches it off
        self.alias_exit = True
        # managers whose __enter__/__exit__ are implemented in C
        self.c_level = True
        self.n_c_level = 0

    # ---- decisions -------------------------------------------------------------------
    def D(self):
        return self.rng.random() < 0.5

    def R(self):
        return range(self.rng.choice((0, 1, 1, 2)))

    def M(self):
        return self.rng.choice((0, 1, 2))

    def T(self):
        # guard of `while True:` loops
        self.steps += 1
        return self.steps > self.max_steps or self.rng.random() < 0.3

    def RECUR(self):
        # bounded recursion budget for generated self-calls
        left = getattr(self, "rec_left", 2)
        if left > 0 and self.rng.random() < 0.5:
            self.rec_left = left - 1
            return True
        return False

    def TL(self):
        # guard of skeleton `while` loops: only the loop budget ends them
        self.loops = getattr(self, "loops", 0) + 1
        return self.loops > 3

    def V(self):
        return ("value", self.rng.randrange(1000))

    def CHK(self):
        # first statement of bare-except handlers: never swallow the step limit
        ex = sys.exc_info()[1]
        if isinstance(ex, (LoopLimit, GeneratorExit)):
            raise ex

    def _after(self):
        r = self.rng.random()
        if r < self.p_exc * 0.6:
            raise E1()
        if r < self.p_exc:
            raise E2()

    def _step(self):
        self.steps += 1
        if self.steps > self.max_steps or self.closing:
            raise LoopLimit()

    # ---- observation points ----------------------------------------------------------
    async def sus(self, k):
        self._step()
        self.trace.append(("sus", k))
        await _trap(("sus", k))
        self._after()

    def ysus(self, k):
        # used as:  yield from ysus(k)  is avoided; generators use plain `yield k` followed by
        # a call to post(k) so that the generated frame itself is the suspended one
        raise NotImplementedError

    def pre(self, k):
        self._step()
        self.trace.append(("pre", k))
        return ("y", k)

    def post(self, k):
        self._after()

    def P(self, k):
        self._step()
        self.trace.append(("P", k))
        if self.probe_cb is not None:
            self.probe_cb(("P", k))
        self._after()

    # ---- the fold --------------------------------------------------------------------
    def truth(self, owner_id):
        """[(mgr, is_async, is_exiting)] for managers owned by activation *owner_id*.  One entry per
        *activation*: a re-entrant manager entered twice is listed twice, and an exit belongs to its most
        recent activation."""
        ent = []   # [manager, state] per activation attempt, outermost first
        for ev, m in self.log:
            if m.owner != owner_id:
                continue
            if ev == "es":
                ent.append([m, "entering"])
            elif ev == "ee":
                for a in reversed(ent):
                    if a[0] is m and a[1] == "entering":
                        a[1] = "entered"
                        break
            elif ev == "xs":
                for a in reversed(ent):
                    if a[0] is m and a[1] == "entered":
                        a[1] = "exiting"
                        break
            elif ev == "xe":
                # ends the most recent activation attempt of m: a failed enter, or an exit
                for idx in range(len(ent) - 1, -1, -1):
                    if ent[idx][0] is m:
                        del ent[idx]
                        break
        return [(m, m.is_async, st == "exiting") for m, st in ent if st != "entering"]

    def in_progress(self, owner_id):
        """managers of this activation that are currently entering or exiting (allowed extras
        of the fallback analysis)."""
        state = {}
        for ev, m in self.log:
            if m.owner != owner_id:
                continue
            state[id(m)] = (ev, m)
        return [m for ev, m in state.values() if ev in ("es", "xs")]

    def live_owner_ids(self):
        return {m.owner for ev, m in self.log}

    # ---- namespace for generated code ------------------------------------------------
    def namespace(self):
        run = self

        class ProbingSeq(object):
            def __init__(s, vals, k):
                s.vals = vals
                s.k = k

            def __iter__(s):
                run.trace.append(("iter", s.k))
                if run.probe_cb is not None:
                    run.probe_cb(("unpack-iter", s.k))
                return iter(s.vals)

        class DelProbe(object):
            def __init__(s, k):
                s.k = k

            def __del__(s):
                try:
                    run.trace.append(("del", s.k))
                    if run.probe_cb is not None:
                        run.probe_cb(("result-del", s.k))
                except BaseException:
                    # exceptions cannot propagate out of __del__; the monitor's own guard has
                    # already recorded an observer error if there was one
                    pass

        class Base(object):
            def __init__(s, k, shape=None):
                s.k = k
                s.shape = shape
                s.owner = id(sys._getframe(1))
                s.tag = (sys._getframe(1).f_lineno, k)
                run.nmgr += 1
                s.serial = run.nmgr
                r = run.rng.random
                s.sw = r() < run.p_swallow
                s.enterfail = r() < run.p_enterfail
                s.exitfail = r() < run.p_exitfail
                s.susp_enter = r() < run.p_mgr_suspend
                s.susp_exit = r() < run.p_mgr_suspend

            def __repr__(s):
                return "<%s k=%d #%d>" % (type(s).__name__, s.k, s.serial)

            def _ret(s):
                if s.shape is None:
                    if getattr(s, "dropret", False) and run.probe_cb is not None:
                        # the with statement has no `as` target: the result is dropped by the very first
                        # instruction of the with body's exception-table range, running __del__ from C
                        return DelProbe(s.k)
                    return s
                v = build_value(s.shape)
                if run.probe_cb is not None and isinstance(v, tuple):
                    # unpacking targets: the frame calls __iter__ (Python code reached through C) from
                    # the first instruction of the with body's range
                    return ProbingSeq(v, s.k)
                return v

            def _swallow(s, e):
                return bool(s.sw and e[0] is not None and not issubclass(e[0], (LoopLimit, GeneratorExit)))

        class S(Base):
            is_async = False

            def __enter__(s):
                run.log.append(("es", s))
                run.trace.append(("es", s.k))
                if run.probe_cb is not None:
                    run.probe_cb(("enter", s.k))
                if s.enterfail:
                    run.log.append(("xe", s))
                    raise EnterFail(s.k)
                run.log.append(("ee", s))
                return s._ret()

            def __exit__(s, *e):
                run.log.append(("xs", s))
                run.trace.append(("xs", s.k, getattr(e[0], "__name__", None)))
                try:
                    if run.probe_cb is not None:
                        run.probe_cb(("exit", s.k, e[0] is not None))
                    if s.exitfail and not run.closing:
                        raise ExitFail(s.k)
                finally:
                    run.log.append(("xe", s))
                return s._swallow(e)

        class A(Base):
            is_async = True

            async def __aenter__(s):
                run.log.append(("es", s))
                run.trace.append(("es", s.k))
                try:
                    if run.probe_cb is not None:
                        run.probe_cb(("aenter", s.k))
                    elif run.mode == "suspended" and s.susp_enter and not run.closing:
                        await _trap(("aenter", s.k))
                    if s.enterfail:
                        raise EnterFail(s.k)
                except BaseException:
                    run.log.append(("xe", s))
                    raise
                run.log.append(("ee", s))
                return s._ret()

            async def __aexit__(s, *e):
                run.log.append(("xs", s))
                run.trace.append(("xs", s.k, getattr(e[0], "__name__", None)))
                try:
                    if run.probe_cb is not None:
                        run.probe_cb(("aexit", s.k, e[0] is not None))
                    elif run.mode == "suspended" and s.susp_exit and not run.closing:
                        await _trap(("aexit", s.k))
                    if s.exitfail and not run.closing:
                        raise ExitFail(s.k)
                finally:
                    run.log.append(("xe", s))
                return s._swallow(e)

        class SX(Base):
            """the exit method was defined under another name (`__exit__ = close`): its frame's
            code name is not '__exit__'"""
            is_async = False
            __enter__ = S.__enter__

            def close(s, *e):
                return S.__exit__(s, *e)

            __exit__ = close

        class AX(Base):
            is_async = True
            __aenter__ = A.__aenter__

            async def aclose(s, *e):
                return await A.__aexit__(s, *e)

            __aexit__ = aclose

        class SF(S):
            """falsy manager; asking for its truth value is an observable event"""

            def __len__(s):
                run.trace.append(("len", s.k))
                return 0

        class AF(A):
            def __len__(s):
                run.trace.append(("len", s.k))
                return 0

        import io as _io

        class SC(Base, _io.BytesIO):
            """manager whose __enter__/__exit__ are implemented in C (inherited from _io._IOBase, like
            files; locks and memoryviews are the same kind): the exit callable the interpreter keeps is
            a builtin method, not a types.MethodType.  The C code consults `closed` on entry and calls
            close() on exit, which is where the shadow log is written."""
            is_async = False

            @property
            def closed(s):
                st = s.__dict__.get("_sc_state")
                if st == "new":
                    s._sc_state = "entered"
                    run.log.append(("es", s))
                    run.trace.append(("es", s.k))
                    if run.probe_cb is not None:
                        run.probe_cb(("enter", s.k))
                    if s.enterfail:
                        s._sc_state = "closed"
                        run.log.append(("xe", s))
                        raise EnterFail(s.k)
                    run.log.append(("ee", s))
                    return False
                return st != "entered"

            def close(s):
                if s.__dict__.get("_sc_state") != "entered":
                    return
                s._sc_state = "closed"
                run.log.append(("xs", s))
                run.trace.append(("xs", s.k, None))
                try:
                    if run.probe_cb is not None:
                        run.probe_cb(("exit", s.k, False))
                    if s.exitfail and not run.closing:
                        raise ExitFail(s.k)
                finally:
                    run.log.append(("xe", s))

        def mkS(k, shape=None, dropret=False, reentrant=False):
            cls = SF if run.rng.random() < run.p_falsy else S
            if run.alias_exit and run.rng.random() < 0.15:
                cls = SX
            if run.c_level and shape is None and not reentrant and run.rng.random() < 0.12:
                cls = SC
                run.n_c_level += 1
            m = cls.__new__(cls)
            Base.__init__(m, k, shape)
            if cls is SC:
                m._sc_state = "new"
            m.dropret = dropret
            m.owner = id(sys._getframe(1))
            m.tag = (sys._getframe(1).f_lineno, k)
            return m

        def mkA(k, shape=None, dropret=False):
            cls = AF if run.rng.random() < run.p_falsy else A
            if run.alias_exit and run.rng.random() < 0.15:
                cls = AX
            m = cls.__new__(cls)
            Base.__init__(m, k, shape)
            m.dropret = dropret
            m.owner = id(sys._getframe(1))
            m.tag = (sys._getframe(1).f_lineno, k)
            return m

        def mkRS(k):
            # a manager that is going to be entered more than once (never the single-use C-level kind)
            m = mkS(k, reentrant=True)
            m.owner = id(sys._getframe(1))
            m.tag = (sys._getframe(1).f_lineno, k)
            return m

        def mkRA(k):
            m = mkA(k)
            m.owner = id(sys._getframe(1))
            m.tag = (sys._getframe(1).f_lineno, k)
            return m

        ns_obj = _NS()
        ns_obj.sub = _NS()
        ns_obj.sub.sub = _NS()

        def FN(*a, **kw):
            return ns_obj

        ns_obj.meth = FN

        return dict(
            S=mkS, A=mkA, RS=mkRS, RA=mkRA, P=self.P, CP=__import__("functools").partial(self.P), D=self.D, R=self.R, M=self.M, T=self.T, TL=self.TL, RECUR=self.RECUR, V=self.V, CHK=self.CHK,
            sus=self.sus, pre=self.pre, post=self.post,
            E1=E1, E2=E2, LoopLimit=LoopLimit,
            NS=ns_obj, ARR=[None] * 8, DCT={}, FN=FN, LFN=FN, IDX=2, KEY="key", sys=sys,
        )
