"""Random Stack / Frame / Context trees built directly from the dataclasses over real parked
frames (source registered in linecache).  Shared by C18 and C19.  Pure stdlib, Python 3.9+."""
import linecache

from stackscope import Stack, Frame, Context

NFN = 12
SRC = "".join("def fn%d():\n    with_line_%d = 1\n    yield  # code line %d\n" % (i, i, i) for i in range(NFN))
FN = "<fmtsrc>"


class Obj(object):
    def __init__(self, n, text=None):
        self.n = n
        self.text = text

    def __repr__(self):
        return self.text if self.text is not None else "<Obj %d>" % self.n


class Trees(object):
    def __init__(self, rng, max_depth=3, width=3, hostile=False):
        self.rng = rng
        self.max_depth = max_depth
        self.width = width
        self.hostile = hostile  # marker-like content and multi-line reprs
        linecache.cache[FN] = (len(SRC), None, SRC.splitlines(True), FN)
        ns = {"__name__": "fmtmod"}
        exec(compile(SRC, FN, "exec"), ns)
        self.gens = [ns["fn%d" % i]() for i in range(NFN)]
        for g in self.gens:
            next(g)
        self.cnt = 0
        self.has_multiline = False
        self.has_exotic_separator = False
        self.has_nonascii = False

    def uid(self):
        self.cnt += 1
        return self.cnt

    def obj(self):
        r = self.rng
        if self.hostile and r.random() < 0.25:
            t = r.choice(["╠ fake frame", "│ x", "├─ y", "─ z", "  Error while extracting stack:",
                          "two\nlines", "stackscope.Stack of nothing", "+ plus", ". dot", "` tick", "| bar"])
            if "\n" in t:
                self.has_multiline = True
            return Obj(self.uid(), t)
        if r.random() < 0.08:
            # one physical line as far as "\n" is concerned, but str.splitlines() would cut it
            sep = r.choice(["\x0c", "\x0b", "\x1c", "\x1d", "\x1e", "\x85", "\u2028", "\u2029", "\r"])
            self.has_exotic_separator = True
            if ord(sep) > 127:
                self.has_nonascii = True
            return Obj(self.uid(), "<Obj%sx %d>" % (sep, self.cnt))
        return Obj(self.uid())

    def stack(self, depth=0, as_child=False):
        r = self.rng
        # extract() of something it cannot look into returns a Stack with no frames (and that object as leaf)
        nfr = r.randint(0 if (as_child or r.random() < 0.1) else 1, self.width if depth < 2 else 1)
        frames = [self.frame(depth) for _ in range(nfr)]
        leaf = self.obj() if r.random() < 0.3 else None
        err = None
        q = r.random()
        if q < 0.12:
            try:
                raise ValueError("err%d" % self.uid())
            except ValueError as e:
                err = e
        elif q < 0.16:
            # chained: the rendering has blank lines around "The above exception was ..."
            try:
                try:
                    raise KeyError("cause%d" % self.uid())
                except KeyError as c:
                    raise ValueError("effect") from c
            except ValueError as e:
                err = e
        elif q < 0.2:
            try:
                raise ValueError("first line\n\nthird line %d" % self.uid())
            except ValueError as e:
                err = e
        elif q < 0.27:
            try:
                try:
                    raise KeyError("k%d" % self.uid())
                except KeyError as e1:
                    grp = _group("multiple errors encountered while extracting stack", [e1, ValueError("v")])
                    raise grp
            except Exception as e:
                err = e
        root = self.obj() if (as_child and r.random() < 0.8) or r.random() < 0.3 else None
        return Stack(root=root, frames=frames, leaf=leaf, error=err)

    def frame(self, depth):
        r = self.rng
        g = r.choice(self.gens)
        f = Frame(pyframe=g.gi_frame, hide=r.random() < 0.2, hide_line=r.random() < 0.15)
        if depth < self.max_depth:
            f.contexts = [self.ctx(depth, top=True) for _ in range(r.randint(0, 2))]
            if f.contexts and r.random() < 0.3:
                f.contexts[-1].is_exiting = True
            elif f.contexts and r.random() < 0.25:
                # the frame is executing on the very line of its innermost `with` (a later item of a one-line
                # with statement being entered, or a one-line `with cm: body()`), the manager active, not exiting
                f.contexts[-1].start_line = f.lineno
                self.same_line_contexts = getattr(self, "same_line_contexts", 0) + 1
        return f

    def ctx(self, depth, top):
        r = self.rng
        c = Context(obj=self.obj() if r.random() < 0.8 else None, is_async=r.random() < 0.5,
                    varname=r.choice([None, "v", "a.b", "(x, y)"]),
                    start_line=r.choice([None, 2, 5, 8]) if top else r.choice([None, 2]),
                    description=r.choice([None, "desc%d(...)" % self.uid(), "desc\x0c%d\x1d(...)" % self.uid()]),
                    hide=r.random() < 0.15)
        if depth < self.max_depth and r.random() < 0.4:
            c.inner_stack = self.stack(depth + 1)
            if r.random() < 0.15:
                c.inner_stack.frames = []
        if depth < self.max_depth:
            kids = []
            for _ in range(r.randint(0, self.width - 1) if r.random() < 0.5 else 0):
                if r.random() < 0.5:
                    kids.append(self.ctx(depth + 1, top=False))
                else:
                    st = self.stack(depth + 1, as_child=True)
                    if r.random() < 0.4:
                        st.frames = []
                    kids.append(st)
            c.children = kids
        return c


def _group(msg, excs):
    try:
        return ExceptionGroup(msg, excs)  # noqa: F821 (3.11+)
    except NameError:
        from exceptiongroup import ExceptionGroup as EG
        return EG(msg, excs)
