"""Seeded program generator.  Emits *source text* for functions whose bodies are built from
with / async with, try/except/else/finally, for/while, if, match and every way of leaving a
block.  Observation points are inserted between every pair of statements and at the start and
end of every block.  Pure stdlib, Python 3.9+ (the generated text is filtered for the running
interpreter: `match` only on >= 3.10).

kinds:  'coro' (await sus(k)), 'gen' (yield), 'agen' (await + yield), and for running-mode
programs 'sync' / 'gen' / 'coro' / 'agen' / 'module' / 'class' with P(k) probe calls.
"""
import random
import sys

HAS_MATCH = sys.version_info >= (3, 10)

SUPPORTED_TARGETS = "supported"
UNSUPPORTED_TARGETS = "unsupported"


class Gen(object):
    def __init__(self, seed, kind, mode, size=3, layout=True, pad=False, nchildren=None):
        self.rng = random.Random(seed)
        self.kind = kind
        self.mode = mode  # 'suspended' or 'running'
        self.size = size
        self.layout = layout
        self.pad = pad
        self.k = 0
        self.lines = []
        self.nchildren = self.rng.choice((0, 0, 1, 2)) if nchildren is None else nchildren
        self.cur_fn = 0
        self.in_module = kind in ("module", "class")
        self.globals_decl = []
        self.cellvars = []

    # ---- helpers ----------------------------------------------------------------------
    def nk(self):
        self.k += 1
        return self.k

    def emit(self, ind, text):
        self.lines.append("    " * ind + text)

    def is_async_kind(self):
        return self.kind in ("coro", "agen")

    def sus(self, ind):
        k = self.nk()
        if self.mode == "running":
            # CP reaches the probe through a C trampoline (functools.partial): the calling frame then
            # has no saved stack pointer, unlike for a direct Python-to-Python call
            self.emit(ind, "%s(%d)" % ("CP" if self.rng.random() < 0.35 else "P", k))
            return
        if self.kind == "coro":
            self.emit(ind, "await sus(%d)" % k)
        elif self.kind == "gen":
            self.emit(ind, "yield pre(%d)" % k)
            self.emit(ind, "post(%d)" % k)
        else:  # agen
            if self.rng.random() < 0.5:
                self.emit(ind, "await sus(%d)" % k)
            else:
                self.emit(ind, "yield pre(%d)" % k)
                self.emit(ind, "post(%d)" % k)

    # ---- targets ----------------------------------------------------------------------
    def target(self):
        """returns (source, shape, cls) where cls is supported/unsupported/None(no target)"""
        r = self.rng.random()
        if r < 0.25:
            return None, None, None
        if r < 0.55:
            return self.name_target(), None, SUPPORTED_TARGETS
        if r < 0.9:
            return self.complex_target(2)
        return self.unsupported_target()

    def name_target(self):
        k = self.nk()
        name = "v%d" % k
        if self.in_module:
            return name
        r = self.rng.random()
        if r < 0.12:
            name = "g%d" % k
            self.globals_decl.append(name)
        elif r < 0.24:
            self.cellvars.append(name)
        return name

    def simple_store(self):
        r = self.rng.random()
        if r < 0.3:
            return self.name_target()
        if r < 0.45:
            return self.rng.choice(("NS.a", "NS.sub.b", "NS.sub.sub.c", "FN(1, 2).z", "FN().w", "FN(IDX, 'x').q",
                                    "LFN(1).y", "NS.meth(2, IDX).m", "LFN().sub.t"))
        if r < 0.75:
            return self.rng.choice(("ARR[0]", "ARR[-1]", "ARR[IDX]", "DCT['k']", "DCT[KEY]", "DCT[None]",
                                    "NS.__dict__['d']", "DCT[3]", "FN(1).__dict__[KEY]"))
        return self.name_target()

    def complex_target(self, depth):
        r = self.rng.random()
        if r < 0.45 or depth == 0:
            return self.simple_store(), None, SUPPORTED_TARGETS
        n = self.rng.choice((1, 2, 2, 3))
        parts = []
        shapes = []
        star = self.rng.random() < 0.3
        star_at = self.rng.randrange(n) if star else -1
        for i in range(n):
            if depth > 1 and self.rng.random() < 0.25:
                src, shape, _ = self.complex_target(depth - 1)
                if shape is None:
                    shape = 1
            else:
                src, shape = self.simple_store(), 1
            if i == star_at:
                if shape != 1:
                    src, shape = self.simple_store(), 1
                parts.append("*" + src)
                shapes.extend([1] * self.rng.choice((0, 1, 2)))
            else:
                parts.append(src)
                shapes.append(shape)
        if self.rng.random() < 0.5:
            src = "(" + ", ".join(parts) + ("," if n == 1 else "") + ")"
        else:
            src = "[" + ", ".join(parts) + "]"
        return src, tuple(shapes), SUPPORTED_TARGETS

    def unsupported_target(self):
        c = self.rng.choice(("ARR[IDX + 1]", "ARR[(WIDX := 1)]", "FN(a=1).z", "DCT[KEY * 2]", "ARR[1:2]",
                             "ARR[IDX:IDX + 1]", "DCT[FN]", "DCT[(1, 2)]", "ARR[-IDX]"))
        if sys.version_info < (3, 10) and ":=" in c:
            c = "ARR[IDX + 1]"
        shape = (1,) if ":" in c and ":=" not in c else None
        return c, shape, UNSUPPORTED_TARGETS

    # ---- statements -------------------------------------------------------------------
    def block(self, ind, depth, in_loop, in_func=True, force=None):
        """emit a block at indentation ind"""
        n = self.rng.choice((1, 1, 2, 2, 3)) if depth > 0 else 1
        if depth >= self.size:
            n = self.rng.choice((2, 3, 3, 4))
        self.sus(ind)
        for i in range(n):
            self.last_in_block = i == n - 1
            if force is not None and i == 0:
                self.stmt(ind, depth, in_loop, force)
            elif depth >= self.size and i < n - 1:
                self.stmt(ind, depth, in_loop, self.rng.choice(("with", "with", "try", "for", "call", "if", "while")))
            else:
                self.stmt(ind, depth, in_loop)
            if self.rng.random() < 0.7:
                self.sus(ind)

    def stmt(self, ind, depth, in_loop, force=None):
        rng = self.rng
        if depth <= 0:
            choices = ["leaf"]
        else:
            choices = ["with"] * 6 + ["try"] * 3 + ["if"] * 2 + ["for"] * 2 + ["while"] + ["leaf"] * 3 + ["call"] * 2
            if HAS_MATCH:
                choices.append("match")
        c = force or rng.choice(choices)
        if c == "with":
            self.with_stmt(ind, depth, in_loop)
        elif c == "try":
            self.try_stmt(ind, depth, in_loop)
        elif c == "if":
            self.emit(ind, "if D():")
            self.block(ind + 1, depth - 1, in_loop)
            r = rng.random()
            if r < 0.3:
                self.emit(ind, "elif D():")
                self.block(ind + 1, depth - 1, in_loop)
            if r < 0.5:
                self.emit(ind, "else:")
                self.block(ind + 1, depth - 1, in_loop)
        elif c == "for":
            self.emit(ind, "for _i%d in R():" % self.nk())
            self.block(ind + 1, depth - 1, True)
            if rng.random() < 0.3:
                self.emit(ind, "else:")
                self.block(ind + 1, depth - 1, in_loop)
        elif c == "while":
            if rng.random() < 0.5:
                self.emit(ind, "while D():")
                self.block(ind + 1, depth - 1, True)
            else:
                self.emit(ind, "while True:")
                self.emit(ind + 1, "if T(): break")
                self.block(ind + 1, depth - 1, True)
            if rng.random() < 0.3:
                self.emit(ind, "else:")
                self.block(ind + 1, depth - 1, in_loop)
        elif c == "match":
            self.emit(ind, "match M():")
            self.emit(ind + 1, "case 0:")
            self.block(ind + 2, depth - 1, in_loop)
            if rng.random() < 0.7:
                self.emit(ind + 1, "case 1 | 5:")
                self.block(ind + 2, depth - 1, in_loop)
            if rng.random() < 0.6:
                self.emit(ind + 1, "case _:")
                self.block(ind + 2, depth - 1, in_loop)
        elif c == "call":
            self.call_child(ind)
        else:
            self.leaf(ind, in_loop)

    def call_child(self, ind):
        if self.in_module:
            self.emit(ind, "pass")
            return
        if self.cur_fn >= self.nchildren or self.rng.random() < 0.25:
            # bounded recursion: two live activations of one code object, possibly in different
            # states (one inside a with body, the other exiting it)
            j = self.cur_fn
            if self.mode == "running":
                call = {"sync": "f%d()", "gen": "for _x in f%d(): pass", "coro": "await f%d()",
                        "agen": "async for _x in f%d(): pass"}[self.kind] % j
            elif self.kind == "coro":
                call = "await f%d()" % j
            elif self.kind == "gen":
                call = "yield from f%d()" % j
            else:
                self.emit(ind, "if RECUR():")
                self.emit(ind + 1, "async for _x in f%d():" % j)
                self.emit(ind + 2, "yield _x")
                return
            self.emit(ind, "if RECUR():")
            self.emit(ind + 1, call)
            return
        j = self.rng.randrange(self.cur_fn + 1, self.nchildren + 1)
        if self.mode == "running":
            if self.kind == "sync":
                self.emit(ind, "f%d()" % j)
            elif self.kind == "gen":
                self.emit(ind, "for _x in f%d(): pass" % j)
            elif self.kind == "coro":
                self.emit(ind, "await f%d()" % j)
            else:
                self.emit(ind, "async for _x in f%d(): pass" % j)
            return
        if self.kind == "coro":
            self.emit(ind, "await f%d()" % j)
        elif self.kind == "gen":
            self.emit(ind, "yield from f%d()" % j)
        else:
            self.emit(ind, "async for _x in f%d():" % j)
            self.emit(ind + 1, "yield _x")

    def leaf(self, ind, in_loop):
        rng = self.rng
        opts = ["pass", "raise", "raise"]
        if not self.in_module:
            opts += ["retc", "retc", "ret"]
            if self.kind != "agen":
                opts += ["retv", "retv"]
        if in_loop:
            opts += ["break", "break", "continue", "continue"]
        c = rng.choice(opts)
        # most leaves are conditional so that the code after them stays reachable
        cond = rng.random() < 0.7 or not getattr(self, "last_in_block", True)
        if cond:
            self.emit(ind, "if D():")
            ind += 1
        if c == "pass":
            self.emit(ind, "pass")
        elif c == "raise":
            self.emit(ind, "raise %s()" % rng.choice(("E1", "E2")))
        elif c == "retc":
            self.emit(ind, "return %s" % rng.choice(("7", "None", "'s'", "True")) if self.kind != "agen" else "return")
        elif c == "ret":
            self.emit(ind, "return")
        elif c == "retv":
            self.emit(ind, "return V()")
        elif c == "break":
            self.emit(ind, "break")
        elif c == "continue":
            self.emit(ind, "continue")

    def with_stmt(self, ind, depth, in_loop):
        rng = self.rng
        is_async = self.is_async_kind() and rng.random() < (0.75 if self.mode == "suspended" else 0.5)
        nitems = rng.choice((1, 1, 1, 2, 2, 3))
        items = []
        for _ in range(nitems):
            k = self.nk()
            tsrc, shape, _cls = self.target()
            ctor = "A" if is_async else "S"
            call = "%s(%d)" % (ctor, k) if shape is None else "%s(%d, %r)" % (ctor, k, shape)
            if tsrc is None and self.mode == "running" and rng.random() < 0.5:
                call = "%s(%d, None, True)" % (ctor, k)   # result dropped -> __del__ probe
            items.append((call, tsrc))
        kw = "async with" if is_async else "with"

        def item_src(it):
            return it[0] if it[1] is None else "%s as %s" % (it[0], it[1])

        lay = rng.random() if self.layout else 0.0
        if lay < 0.55:
            self.emit(ind, "%s %s:" % (kw, ", ".join(item_src(i) for i in items)))
        elif lay < 0.7 and sys.version_info >= (3, 9):
            # parenthesised, one item per line (3.9's PEG parser accepts it)
            self.emit(ind, "%s (" % kw)
            for it in items:
                self.emit(ind + 1, item_src(it) + ",")
            self.emit(ind, "):")
        elif lay < 0.85:
            # backslash continuation
            for n, it in enumerate(items):
                first = n == 0
                last = n == len(items) - 1
                text = ("%s " % kw if first else "        ") + item_src(it) + (":" if last else ", \\")
                self.emit(ind if first else ind, text)
        else:
            # context expression spanning lines:  with S(\n    1) as a, S(\n    2):
            text = "%s " % kw
            for n, it in enumerate(items):
                last = n == len(items) - 1
                call = it[0]
                head = call[: call.index("(") + 1]
                rest = call[call.index("(") + 1:]
                self.emit(ind, text + head)
                text = "        " + rest + ("" if it[1] is None else " as %s" % it[1]) + (":" if last else ", ")
            self.emit(ind, text)
        body_force = None
        r = rng.random()
        if r < 0.35:
            body_force = rng.choice(("try", "if", "with", "for", "leaf"))
        if r > 0.9:
            self.emit(ind + 1, "pass")
            return
        self.body_block(ind + 1, depth - 1, in_loop, body_force)

    def body_block(self, ind, depth, in_loop, force):
        """with-body: the *last* statement matters for how the exit sequence is entered, so
        optionally end on a forced compound statement with no trailing observation point."""
        rng = self.rng
        if rng.random() < 0.6:
            self.sus(ind)
        n = rng.choice((0, 1, 1, 2))
        for _ in range(n):
            self.stmt(ind, depth, in_loop)
            if rng.random() < 0.5:
                self.sus(ind)
        if force is not None:
            self.stmt(ind, max(depth, 1), in_loop, force)
        elif n == 0:
            self.sus(ind)
        if rng.random() < 0.4:
            self.sus(ind)

    def try_stmt(self, ind, depth, in_loop):
        rng = self.rng
        self.emit(ind, "try:")
        if rng.random() < 0.15:
            self.emit(ind + 1, "pass")
        else:
            self.block(ind + 1, depth - 1, in_loop)
        nh = rng.choice((0, 1, 1, 2))
        fin = rng.random() < 0.45 or nh == 0
        types = [rng.choice(("E1", "E2", "(E1, E2)", "Exception", "", "E1 as ex%d" % self.nk())) for i in range(nh)]
        types.sort(key=lambda t: t == "")
        if types.count("") > 1:
            types[0] = "E2"
        for t in types:
            if t == "":
                self.emit(ind, "except:")
                self.emit(ind + 1, "CHK()")
            else:
                self.emit(ind, "except %s:" % t)
            self.block(ind + 1, depth - 1, in_loop)
        if nh and rng.random() < 0.3:
            self.emit(ind, "else:")
            self.block(ind + 1, depth - 1, in_loop)
        if fin:
            self.emit(ind, "finally:")
            self.block(ind + 1, depth - 1, in_loop)

    # ---- functions --------------------------------------------------------------------
    def function(self, idx):
        self.cur_fn = idx
        self.globals_decl = []
        self.cellvars = []
        start = len(self.lines)
        kind = self.kind
        sig, closed = self.rng.choice((
            ("", ""), ("", ""), ("", ""),
            ("p1=None", "p1"), ("*a", "a"), ("**kw", "kw"), ("*a, **kw", "kw"), ("*a, **kw", "a, kw"),
            ("p1=0, *a, k1=1, **kw", "p1, kw"), ("p1=0, p2=1, *, k1=2", "k1"), ("p1=0, /, p2=1, **kw", "p2, kw"),
            ("*a, k1=None, **kw", ""),
        ))
        if kind in ("coro", "agen"):
            self.emit(0, "async def f%d(%s):" % (idx, sig))
        elif kind in ("gen", "sync"):
            self.emit(0, "def f%d(%s):" % (idx, sig))
        hdr = len(self.lines)
        if closed:
            # parameters captured by a nested function become cells (they then appear both in
            # co_varnames and co_cellvars on 3.11+)
            self.emit(1, "_cp = lambda: (%s,)" % closed)
        if self.pad and idx == 0:
            self.emit(1, "'''Docstring.'''")
            self.emit(1, "_s = 'A' * 300")
            self.emit(1, "_lst = [%s]" % ", ".join("_s[%d]" % i for i in range(300)))
        depth = self.size if idx == 0 else max(1, self.size - 1)
        self.size_cur = depth
        self.block(1, depth, False)
        if self.pad and idx == 0:
            # a long tail so that forward jumps over it need EXTENDED_ARG
            pass
        if kind in ("gen", "agen"):
            self.emit(1, "if False: yield")
        # (a local bound to None: a stray id(None) lookup in the varname fallback would pick it up)
        extra = ["    LFN = FN", "    pending = None"]
        if self.rng.random() < 0.3:
            # a comprehension whose loop variable is captured by a nested function: inlined on 3.12+ (PEP 709), where
            # that variable - not an argument - is then both a fast local and a cell of *this* function
            extra.append("    _lc = [(lambda: _cq) for _cq in (1, 2)]")
        if self.globals_decl:
            extra.append("    global " + ", ".join(self.globals_decl))
        if self.cellvars:
            extra.append("    _cells = lambda: (%s)" % ", ".join(self.cellvars + [""]))
        self.lines[hdr:hdr] = extra

    def module(self):
        if self.kind in ("module", "class"):
            if self.kind == "class":
                self.emit(0, "class C:")
                self.block(1, self.size, False)
            else:
                self.block(0, self.size, False)
        else:
            for idx in range(self.nchildren, -1, -1):
                self.function(idx)
                self.emit(0, "")
        return "\n".join(self.lines) + "\n"


def generate(seed, kind, mode, size=3, layout=True, pad=False):
    g = Gen(seed, kind, mode, size=size, layout=layout, pad=pad)
    src = g.module()
    return src


# ---------------------------------------------------------------------------------------
# systematic templates: {exit kind} x {last statement of the with-body} x {nesting, items}
# x {sync, async} x {surrounding construct}

EXIT_KINDS = ("fall", "retc", "retv", "break", "continue", "raise", "swallow")
LAST_STMTS = ("plain", "tryexcept", "tryfinally", "ifreturn", "nestedwith", "loop", "trypass", "ifelse", "match")
SURROUND = ("plain", "for", "while", "try", "finally", "except", "forelse", "match", "withfor", "withwhile")


def template(exit_kind, last, nesting, nitems, is_async, surround, kind, mode):
    """returns source of f0 or None when the combination is not expressible"""
    if last == "match" and not HAS_MATCH:
        return None
    if surround == "match" and not HAS_MATCH:
        return None
    if exit_kind == "retv" and kind == "agen":
        return None
    if kind in ("gen", "sync") and is_async:
        return None
    lines = []
    kctr = [0]

    def nk():
        kctr[0] += 1
        return kctr[0]

    def emit(ind, t):
        lines.append("    " * ind + t)

    def sus(ind):
        k = nk()
        if mode == "running":
            emit(ind, "P(%d)" % k)
        elif kind == "coro" or (kind == "agen" and k % 2):
            emit(ind, "await sus(%d)" % k)
        else:
            emit(ind, "yield pre(%d)" % k)
            emit(ind, "post(%d)" % k)

    if kind in ("coro", "agen"):
        emit(0, "async def f0():")
    else:
        emit(0, "def f0():")
    ind = 1
    sus(ind)
    in_loop = False
    if exit_kind in ("break", "continue") and surround not in ("for", "while", "forelse", "withfor", "withwhile"):
        emit(ind, "for _j in R():")
        ind += 1
        in_loop = True
    if surround == "for":
        emit(ind, "for _i in R():")
        ind += 1
    elif surround == "while":
        emit(ind, "while True:")
        ind += 1
        emit(ind, "if T(): break")
    elif surround == "try":
        emit(ind, "try:")
        ind += 1
    elif surround == "finally":
        emit(ind, "try:")
        emit(ind + 1, "if D(): raise E1()")
        emit(ind, "finally:")
        ind += 1
    elif surround == "except":
        emit(ind, "try:")
        emit(ind + 1, "raise E2()")
        emit(ind, "except E2:")
        ind += 1
    elif surround == "forelse":
        emit(ind, "for _i in R():")
        emit(ind + 1, "pass")
        emit(ind, "else:")
        ind += 1
        if exit_kind in ("break", "continue"):
            emit(ind, "for _j in R():")
            ind += 1
    elif surround == "match":
        emit(ind, "match M():")
        emit(ind + 1, "case 0 | 1:")
        ind += 2
    elif surround in ("withfor", "withwhile"):
        # a loop *between* an enclosing with and the with statements under test: what lies just before the
        # inner exit sequence may be the tail of a jump out of the inner block, still inside the outer one
        k = nk()
        emit(ind, "%s %s(%d) as w%d:" % ("async with" if is_async else "with", "A" if is_async else "S", k, k))
        ind += 1
        if surround == "withfor":
            emit(ind, "for _i in R():")
            ind += 1
        else:
            emit(ind, "while True:")
            ind += 1
            emit(ind, "if T(): break")
    base_ind = ind
    kw = "async with" if is_async else "with"
    ctor = "A" if is_async else "S"
    for n in range(nesting):
        items = []
        for i in range(nitems if n == nesting - 1 else 1):
            k = nk()
            items.append("%s(%d) as v%d" % (ctor, k, k) if (k % 3) else "%s(%d)" % (ctor, k))
        emit(ind, "%s %s:" % (kw, ", ".join(items)))
        ind += 1
        if n < nesting - 1:
            sus(ind)
    # body
    sus(ind)
    leave = {
        "fall": "pass", "retc": "return 7" if kind != "agen" else "return", "retv": "return V()",
        "break": "break", "continue": "continue", "raise": "raise E1()", "swallow": "raise E2()",
    }[exit_kind]
    if last == "plain":
        if exit_kind != "fall":
            emit(ind, "if D(): %s" % leave)
        sus(ind)
        if exit_kind != "fall":
            emit(ind, leave)
    elif last == "tryexcept":
        emit(ind, "try:")
        sus(ind + 1)
        emit(ind + 1, "if D(): %s" % leave)
        emit(ind, "except E2:")
        sus(ind + 1)
    elif last == "trypass":
        emit(ind, "if D(): %s" % leave)
        emit(ind, "try:")
        emit(ind + 1, "pass")
        emit(ind, "except E2:")
        sus(ind + 1)
    elif last == "tryfinally":
        emit(ind, "try:")
        sus(ind + 1)
        emit(ind + 1, "if D(): %s" % leave)
        emit(ind, "finally:")
        sus(ind + 1)
    elif last == "ifreturn":
        emit(ind, "if D():")
        emit(ind + 1, leave)
    elif last == "ifelse":
        emit(ind, "if D():")
        emit(ind + 1, leave)
        emit(ind, "else:")
        sus(ind + 1)
    elif last == "nestedwith":
        emit(ind, "%s %s(%d):" % (kw, ctor, nk()))
        sus(ind + 1)
        emit(ind + 1, "if D(): %s" % leave)
    elif last == "loop":
        emit(ind, "for _q in R():")
        sus(ind + 1)
        if exit_kind not in ("break", "continue"):
            emit(ind + 1, "if D(): %s" % leave)
        else:
            emit(ind + 1, "if D(): raise E1()")
        if exit_kind in ("break", "continue"):
            emit(ind, "if D(): %s" % leave)
    elif last == "match":
        emit(ind, "match M():")
        emit(ind + 1, "case 0:")
        emit(ind + 2, leave)
        emit(ind + 1, "case 1:")
        sus(ind + 2)
    ind = base_ind
    sus(ind)
    if surround == "try":
        emit(ind - 1, "except E1:")
        sus(ind)
    emit(1, "return" if kind == "agen" else "return 3")
    if kind in ("gen", "agen"):
        emit(1, "if False: yield")
    return "\n".join(lines) + "\n"


def all_templates(kind, mode):
    out = []
    for ek in EXIT_KINDS:
        for last in LAST_STMTS:
            for nesting in (1, 2, 3):
                for nitems in (1, 2, 3):
                    for is_async in (False, True):
                        for sur in SURROUND:
                            out.append((ek, last, nesting, nitems, is_async, sur))
    return out


def deep(seed, kind, mode):
    """many simultaneously active managers in one frame (10..16), as nested statements, as items of
    one statement, or mixed with try blocks: the handler chain of the innermost position is long"""
    rng = random.Random(seed)
    n = rng.randint(10, 16)
    lines = []
    k = [0]

    def nk():
        k[0] += 1
        return k[0]

    def sus(ind):
        i = nk()
        if mode == "running":
            lines.append("    " * ind + "P(%d)" % i)
        elif kind == "coro":
            lines.append("    " * ind + "await sus(%d)" % i)
        elif kind == "gen":
            lines.append("    " * ind + "yield pre(%d)" % i)
            lines.append("    " * ind + "post(%d)" % i)
        else:
            lines.append("    " * ind + ("await sus(%d)" % i if i % 2 else "yield pre(%d)" % i))
    is_async_kind = kind in ("coro", "agen")
    lines.append(("async def f0():" if is_async_kind else "def f0():"))
    ind = 1
    left = n
    while left > 0:
        items = min(left, rng.choice((1, 1, 2, 3, 5)))
        left -= items
        use_async = is_async_kind and rng.random() < 0.4
        ctor = "A" if use_async else "S"
        its = []
        for _ in range(items):
            i = nk()
            its.append("%s(%d) as v%d" % (ctor, i, i) if rng.random() < 0.5 else "%s(%d)" % (ctor, i))
        lines.append("    " * ind + ("async with " if use_async else "with ") + ", ".join(its) + ":")
        ind += 1
        if rng.random() < 0.3:
            sus(ind)
        if rng.random() < 0.15 and ind < 14:
            lines.append("    " * ind + "try:")
            ind += 1
            closing = ("    " * (ind - 1) + "finally:", "    " * ind + "pass")
            lines.append("    " * ind + "pass")
            lines.extend(closing)
            ind -= 1
    sus(ind)
    lines.append("    " * ind + "if D(): raise E1()")
    sus(ind)
    if kind in ("gen", "agen"):
        lines.append("    if False: yield")
    return "\n".join(lines) + "\n"


def reentrant_programs(kind, mode):
    """one manager *object* entered twice in one frame (a re-entrant lock, a nestable transaction or span):
    directly nested, with another manager in between, and as two items of one statement"""
    if kind not in ("coro", "gen", "agen", "sync"):
        return []
    is_async = kind in ("coro", "agen")
    kw = "async with" if is_async else "with"
    ctor = "A" if is_async else "S"
    rctor = "RA" if is_async else "RS"
    out = []
    for shape in ("nested", "between", "items", "nested_exc"):
        lines = []
        kctr = [0]

        def nk():
            kctr[0] += 1
            return kctr[0]

        def emit(ind, t):
            lines.append("    " * ind + t)

        def sus(ind):
            k = nk()
            if mode == "running":
                emit(ind, "P(%d)" % k)
            elif kind == "coro" or (kind == "agen" and k % 2):
                emit(ind, "await sus(%d)" % k)
            else:
                emit(ind, "yield pre(%d)" % k)
                emit(ind, "post(%d)" % k)

        emit(0, ("async def f0():" if is_async else "def f0():"))
        emit(1, "m = %s(%d)" % (rctor, nk()))
        sus(1)
        if shape == "items":
            emit(1, "%s m, m as again:" % kw)
            sus(2)
        else:
            emit(1, "%s m as first:" % kw)
            sus(2)
            ind = 2
            if shape == "between":
                emit(ind, "%s %s(%d):" % (kw, ctor, nk()))
                ind += 1
                sus(ind)
            emit(ind, "%s m:" % kw)
            sus(ind + 1)
            if shape == "nested_exc":
                emit(ind + 1, "if D(): raise E2()")
            sus(ind)
        sus(1)
        emit(1, "return" if kind == "agen" else "return 3")
        if kind in ("gen", "agen"):
            emit(1, "if False: yield")
        out.append((shape, "\n".join(lines) + "\n"))
    return out
