#!/venv/bin/python
"""vcheck.py <ID> --tier quick|thorough [--replay path]   |   vcheck.py --setup"""
import argparse
import os
import sys

sys.path.insert(0, os.path.dirname(os.path.abspath(__file__)))
from vlib import orch


def main():
    ap = argparse.ArgumentParser()
    ap.add_argument("check", nargs="?")
    ap.add_argument("--tier", default=os.environ.get("VERIF_TIER") or "quick", choices=["quick", "thorough"])
    ap.add_argument("--replay")
    ap.add_argument("--setup", action="store_true")
    a = ap.parse_args()
    if a.setup:
        orch.ensure_deps()
        print("setup ok; interpreters:", orch.available_interpreters())
        return 0
    return orch.main_check(a.check.upper(), a.tier, a.replay)


if __name__ == "__main__":
    sys.exit(main())
