#!/venv/bin/python
"""Regenerate MANIFEST.json from the check modules (single source of truth)."""
import importlib
import json
import os
import subprocess
import sys

VERIF = os.path.dirname(os.path.dirname(os.path.abspath(__file__)))
sys.path.insert(0, VERIF)

ALL = ["C%02d" % i for i in range(1, 21)]
NOT_BUILT_REASON = "check not built yet in this session (planned; see DESIGN.md section 3)"


def main():
    checks = []
    na = []
    for pid in ALL:
        path = os.path.join(VERIF, "checks", pid.lower() + ".py")
        if not os.path.exists(path):
            na.append({"property_id": pid, "reason": NOT_BUILT_REASON})
            continue
        mod = importlib.import_module("checks." + pid.lower())
        if getattr(mod, "NOT_APPLICABLE", None):
            na.append({"property_id": pid, "reason": mod.NOT_APPLICABLE})
            continue
        doc = (mod.__doc__ or "").strip()
        checks.append({
            "property_id": pid,
            "quick_cmd": "/venv/bin/python vcheck.py %s --tier quick" % pid,
            "thorough_cmd": "/venv/bin/python vcheck.py %s --tier thorough" % pid,
            "evidence_file": "/verif/evidence/%s.json" % pid,
            "replay_cmd_template": "/venv/bin/python vcheck.py %s --replay {path}" % pid,
            "engine": "vcheck",
            "level_claimed": {
                "category": mod.LEVEL,
                "text": getattr(mod, "LEVEL_TEXT", doc),
                "design_ref": "DESIGN.md section 3, %s" % pid,
            },
            "level_note": "; ".join(getattr(mod, "ASSUMPTIONS", [])) or "see DESIGN.md",
            "technique": getattr(mod, "TECHNIQUE", "runtime monitoring: oracle over observed executions"),
        })
    try:
        commits = subprocess.run(
            ["git", "-C", "/repo", "log", "--format=%h %s", "--grep=^hooks:"], capture_output=True, text=True
        ).stdout.strip().splitlines()
    except Exception:
        commits = []
    manifest = {
        "version": 1,
        "setup_cmd": "/venv/bin/python vcheck.py --setup",
        "hooks": {
            "guard": "STACKSCOPE_VERIF",
            "enable": "workers import stackscope from /repo's working tree (PYTHONPATH) with STACKSCOPE_VERIF=1; "
                      "nothing is built or installed",
            "baseline_off_cmd": "cd /repo && env -u STACKSCOPE_VERIF /venv/bin/python -m pytest -ra -q -p no:cacheprovider "
                                "--timeout=900 --continue-on-collection-errors",
            "source_commits": [c.split()[0] for c in commits],
            "add_only": True,
        },
        "engines": [{
            "name": "vcheck",
            "path": "/verif/vcheck.py",
            "serves_properties": [c["property_id"] for c in checks],
            "kind_free_text": "runtime monitoring: generated/hostile workloads run against the real stackscope from "
                              "/repo in sharded subprocesses (4 interpreters), judged online by shadow-log oracles, "
                              "independent second observations and executable reference models; fault injection; "
                              "controlled thread schedules through guarded hook points",
        }],
        "checks": checks,
        "not_applicable": na,
        "notes": "Exit codes: 0 held on what was observed, 1 VIOLATION, 2 INCONCLUSIVE (deciding monitor not reached / "
                 "watchdog). Known findings: /verif/known_findings.json. VERIF_SEED offsets every generator seed.",
    }
    with open(os.path.join(VERIF, "MANIFEST.json"), "w") as f:
        json.dump(manifest, f, indent=1)
    print("MANIFEST.json: %d checks, %d not_applicable" % (len(checks), len(na)))


if __name__ == "__main__":
    main()
