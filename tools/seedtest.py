#!/venv/bin/python
"""Confirm a seeded breakage and run checks against it.

    tools/seedtest.py <seed-dir> <name> <property> <check,check,...>

<seed-dir> holds patch.diff, demo.py, notes.md (written by an independent sub-agent).  The patch is
applied to a fresh scratch worktree of /repo under /tmp (removed afterwards); we confirm that the
repository's tests still pass with it, that demo.py FAILs with it and PASSes without it, then run
the named quick checks with VERIF_REPO=<scratch>.  On success the seed is stored as
/verif/seeded/<name>/ with a meta.json recording what was run.
"""
import json
import os
import shutil
import subprocess
import sys
import tempfile
import time

VERIF = os.path.dirname(os.path.dirname(os.path.abspath(__file__)))


def run(cmd, **kw):
    return subprocess.run(cmd, capture_output=True, text=True, **kw)


def main():
    seed_dir, name, prop, checks = sys.argv[1:5]
    checks = [c for c in checks.split(",") if c]
    patch = os.path.join(seed_dir, "patch.diff")
    demo = os.path.join(seed_dir, "demo.py")
    scratch = tempfile.mkdtemp(prefix="ss_seed_", dir="/tmp")
    meta = {"property": prop, "name": name, "ran_at": time.strftime("%Y-%m-%d %H:%M:%S UTC", time.gmtime()),
            "repo_head": run(["git", "-C", "/repo", "rev-parse", "--short", "HEAD"]).stdout.strip()}
    try:
        run(["git", "-C", "/repo", "worktree", "add", "--detach", "-f", scratch, "HEAD"], check=True)
        env = dict(os.environ, PYTHONPATH=scratch)
        env.pop("STACKSCOPE_VERIF", None)
        if os.environ.get("SEEDTEST_DEMO_IN_TREE"):
            # demos that locate the library relative to their own file (and re-execute themselves under another
            # interpreter) must live inside the tree they are to judge
            os.makedirs(os.path.join(scratch, "_seed"), exist_ok=True)
            shutil.copyfile(demo, os.path.join(scratch, "_seed", "demo.py"))
            demo = os.path.join(scratch, "_seed", "demo.py")
            meta["demo_run_from_inside_the_tree"] = True
        # demo on the unmodified tree
        p = run(["/venv/bin/python", demo], cwd=scratch, env=env, timeout=600)
        meta["demo_without_patch"] = {"exit": p.returncode, "tail": p.stdout.strip().splitlines()[-1:]}
        p = run(["git", "-C", scratch, "apply", patch])
        if p.returncode != 0:
            print("PATCH DOES NOT APPLY", p.stderr)
            return 2
        p = run(["/venv/bin/python", "-m", "pytest", "-q", "-p", "no:cacheprovider", "--timeout=120"], cwd=scratch,
                env=env, timeout=900)
        meta["repo_tests_with_patch"] = (p.stdout.strip().splitlines() or ["?"])[-1]
        p = run(["/venv/bin/python", demo], cwd=scratch, env=env, timeout=600)
        meta["demo_with_patch"] = {"exit": p.returncode, "tail": p.stdout.strip().splitlines()[-1:]}
        meta["checks"] = {}
        for c in checks:
            cenv = dict(os.environ, VERIF_REPO=scratch, VERIF_NO_EVIDENCE="1",
                        VERIF_WORK=os.path.join(VERIF, ".work", "seed"))
            t0 = time.time()
            p = run(["/venv/bin/python", os.path.join(VERIF, "vcheck.py"), c, "--tier", "quick"], cwd=VERIF, env=cenv,
                    timeout=1800)
            lines = p.stdout.splitlines()
            wit = [l for l in lines if l.startswith("witness:")][:1]
            meta["checks"][c] = {"exit": p.returncode, "wall_s": round(time.time() - t0, 1),
                                 "verdict": {0: "held (MISSED)", 1: "VIOLATION (caught)", 2: "INCONCLUSIVE"}.get(
                                     p.returncode, str(p.returncode)),
                                 "first_witness": wit[0][:600] if wit else None}
        ok = (meta["demo_without_patch"]["exit"] == 0 and meta["demo_with_patch"]["exit"] != 0
              and "passed" in meta["repo_tests_with_patch"] and "failed" not in meta["repo_tests_with_patch"])
        meta["confirmed"] = ok
        print(json.dumps(meta, indent=1))
        if ok:
            dst = os.path.join(VERIF, "seeded", name)
            os.makedirs(dst, exist_ok=True)
            demo = os.path.join(seed_dir, "demo.py")
            for f in ("patch.diff", "demo.py", "notes.md"):
                if os.path.exists(os.path.join(seed_dir, f)):
                    shutil.copyfile(os.path.join(seed_dir, f), os.path.join(dst, f))
            with open(os.path.join(dst, "meta.json"), "w") as f:
                json.dump(meta, f, indent=1)
    finally:
        run(["git", "-C", "/repo", "worktree", "remove", "--force", scratch])
        shutil.rmtree(scratch, ignore_errors=True)
    return 0


if __name__ == "__main__":
    sys.exit(main())
