#!/venv/bin/python
"""Regression over the stored seeded breakages: every /verif/seeded/<name>/patch.diff is applied to a
scratch worktree and the checks recorded in its meta.json are run against it.  Prints one line per
(seed, check); exit 1 if any seed is no longer caught by any of its checks
or its patch no longer applies."""
import json
import os
import shutil
import subprocess
import sys
import tempfile

VERIF = os.path.dirname(os.path.dirname(os.path.abspath(__file__)))


def main():
    only = set(sys.argv[1].split(",")) if len(sys.argv) > 1 else None
    missed = 0
    for name in sorted(os.listdir(os.path.join(VERIF, "seeded"))):
        d = os.path.join(VERIF, "seeded", name)
        if not os.path.exists(os.path.join(d, "meta.json")) or (only and name not in only):
            continue
        meta = json.load(open(os.path.join(d, "meta.json")))
        scratch = tempfile.mkdtemp(prefix="ss_reseed_", dir="/tmp")
        try:
            subprocess.run(["git", "-C", "/repo", "worktree", "add", "--detach", "-f", scratch, "HEAD"], check=True,
                           capture_output=True)
            p = subprocess.run(["git", "-C", scratch, "apply", os.path.join(d, "patch.diff")], capture_output=True, text=True)
            if p.returncode != 0:
                print("%s: patch no longer applies (%s)" % (name, p.stderr.strip()[:100]), flush=True)
                missed += 1
                continue
            caught_by = []
            for c in meta.get("checks", {}):
                env = dict(os.environ, VERIF_REPO=scratch, VERIF_NO_EVIDENCE="1",
                           VERIF_WORK=os.path.join(VERIF, ".work", "reseed"))
                r = subprocess.run(["/venv/bin/python", os.path.join(VERIF, "vcheck.py"), c, "--tier", "quick"],
                                   cwd=VERIF, env=env, capture_output=True, text=True, timeout=1800)
                verdict = {0: "held (MISSED)", 1: "VIOLATION (caught)", 2: "INCONCLUSIVE"}.get(r.returncode, str(r.returncode))
                if r.returncode == 1:
                    caught_by.append(c)
                print("%s %s %s" % (name, c, verdict), flush=True)
            if not caught_by:
                # a seed counts as caught when at least one of the checks recorded for it fires
                missed += 1
                print("%s NOT CAUGHT by any of %s" % (name, sorted(meta.get("checks", {}))), flush=True)
        finally:
            subprocess.run(["git", "-C", "/repo", "worktree", "remove", "--force", scratch], capture_output=True)
            shutil.rmtree(scratch, ignore_errors=True)
    print("missed: %d" % missed)
    return 1 if missed else 0


if __name__ == "__main__":
    sys.exit(main())
