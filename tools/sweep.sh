#!/bin/bash
# seed sweep of every quick check on the current tree: tools/sweep.sh "1 2 3" > .work/sweep.log
cd /verif
for seed in $1; do
  for c in C01 C02 C03 C04 C05 C06 C07 C08 C09 C10 C11 C12 C13 C14 C15 C16 C17 C18 C19 C20; do
    out=$(VERIF_SEED=$seed VERIF_NO_EVIDENCE=1 VERIF_WORK=/verif/.work/sweep /venv/bin/python vcheck.py $c --tier quick 2>&1)
    rc=$?
    echo "seed=$seed $c rc=$rc $(echo "$out" | grep -E '^(HELD|INCONCLUSIVE|witness)' | head -2 | cut -c1-400 | tr '\n' ' ')"
  done
done
