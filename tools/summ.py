#!/venv/bin/python
"""summarise violations of the last run of a check: tools/summ.py C08"""
import json, sys, glob, collections
cid = sys.argv[1]
c = collections.Counter()
ex = {}
for p in sorted(glob.glob('/verif/.work/%s/shard_*.out.json' % cid)):
    d = json.load(open(p))
    for v in d.get('violations', []):
        probs = v.get('problems') or [v.get('problem') or v.get('kind')]
        key = (v.get('interp'), v.get('kind'), str(probs[0])[:int(sys.argv[2]) if len(sys.argv) > 2 else 110])
        c[key] += 1
        ex.setdefault(key, v)
for k, n in c.most_common(40):
    print(n, k)
