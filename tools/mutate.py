#!/venv/bin/python
"""Self-validation: apply small property-breaking edits to a scratch copy of /repo (outside /repo
and /verif, removed afterwards) and confirm that the named checks fire within their quick budget.

    tools/mutate.py [--only M03,M07] [--checks C01,C02]     -> table of (mutation, check, exit code)
"""
import argparse
import json
import os
import shutil
import subprocess
import sys
import tempfile

VERIF = os.path.dirname(os.path.dirname(os.path.abspath(__file__)))

# (id, file, old, new, checks that must catch it, note)
MUTATIONS = [
    ("M01", "stackscope/_lowlevel.py", "obj=frame_details.stack[block.level - 1].__self__,", "obj=frame_details.stack[block.level - 2].__self__,",
     ["C01", "C02"], "off-by-one in the value-stack slot of the exit method"),
    ("M02", "stackscope/_lowlevel_cpython_311.py", "    details.blocks.reverse()\n", "    pass\n",
     ["C01", "C02"], "handler chain left inside-out"),
    ("M03", "stackscope/_lowlevel.py", 'is_async=(insn.opname == "SETUP_ASYNC_WITH"),', 'is_async=(insn.opname != "SETUP_ASYNC_WITH"),',
     ["C01"], "is_async swapped (3.9/3.10)"),
    ("M04", "stackscope/_lowlevel.py", 'is_async = insn.opname == "BEFORE_ASYNC_WITH"\n            # 7:', 'is_async = insn.opname == "BEFORE_ASYNC_WITH"\n            is_async_real = is_async\n            # 7:',
     [], "no-op (control: must NOT fire)"),
    ("M05", "stackscope/_lowlevel.py", "        if code[offs] == op[\"CACHE\"] and offs >= 2 and code[offs - 2] == op[\"SEND\"]:", "        if False:",
     ["C02"], "revert F1 (3.12 running aexit)"),
    ("M06", "stackscope/_lowlevel.py", "                    and prev.opname not in no_fallthrough\n", "                    and prev.opname not in no_fallthrough and False\n",
     ["C01", "C02", "C20"], "F2 repair: ignore fall-through predecessors"),
    ("M07", "stackscope/_lowlevel.py", "        if args.args:\n            ret[-1].obj = args.locals[args.args[0]]", "        if False:\n            ret[-1].obj = args.locals[args.args[0]]",
     ["C01", "C02"], "exiting context loses obj (next_inner inference dropped)"),
    ("M08", "stackscope/_lowlevel_cpython_311.py", "stack_top_offset = stack_start_offset + wordsize * handler_depth", "stack_top_offset = stack_start_offset",
     ["C02"], "running frame's stack trimmed to depth 0"),
    ("M09", "stackscope/_lowlevel.py", "    for referent in gc.get_referents(root):", "    for referent in gc.get_referents(frame):",
     ["C20"], "referents mode uses the frame as GC root on 3.11+"),
    ("M10", "stackscope/_lowlevel.py", "        try:\n            ret = _contexts_active_by_trickery(frame)\n        except Exception as ex:", "        try:\n            ret = _contexts_active_by_trickery(frame)\n        except KeyError as ex:",
     ["C20", "C05"], "narrowed except around trickery"),
    ("M11", "stackscope/_lowlevel.py", "    global _can_use_trickery\n    with _trickery_lock:\n        _can_use_trickery = enabled", "    with _trickery_lock:\n        _tl.v = enabled",
     [], "placeholder (not applied)"),
    ("M12", "stackscope/_lowlevel.py", 'elif insn.opname in ("BINARY_SUBSCR", "STORE_SUBSCR"):\n                index = stack.pop()\n                container = stack.pop()', 'elif insn.opname in ("BINARY_SUBSCR", "STORE_SUBSCR"):\n                container = stack.pop()\n                index = stack.pop()',
     ["C08"], "subscript operand order"),
    ("M13", "stackscope/_lowlevel.py", "            ret[idx] = replace(info, varname=locals_by_id.get(id(info.obj)))", "            ret[idx] = replace(info, varname=next(iter(locals_by_id.values()), None))",
     ["C08"], "locals fallback names an arbitrary local"),
    ("M14", "stackscope/_lowlevel.py", "        if insn.starts_line is not None:\n            current_line = insn.starts_line\n        if insn.opname in (\"SETUP_WITH\"", "        if insn.starts_line is not None and current_line < 0:\n            current_line = insn.starts_line\n        if insn.opname in (\"SETUP_WITH\"",
     ["C08"], "start_line not tracked"),
    ("M15", "stackscope/_extract.py", "            rev_items: Iterable[StackItem]\n            if isinstance(unwrapped, collections.abc.Sequence):\n                rev_items = reversed(unwrapped)", "            rev_items: Iterable[StackItem]\n            if isinstance(unwrapped, collections.abc.Sequence):\n                rev_items = list(unwrapped)",
     ["C03", "C10"], "sequence items not reversed"),
    ("M16", "stackscope/_glue.py", "        return (agen.ag_frame, agen.ag_await)", "        return (agen.ag_frame, None)",
     ["C03"], "ag_await ignored"),
    ("M17", "stackscope/_types.py", "            self.lineno = self.pyframe.f_lineno", "            self.lineno = self.pyframe.f_code.co_firstlineno",
     ["C03"], "Frame.lineno from co_firstlineno"),
    ("M18", "stackscope/_extract.py", "        if isinstance(candidate, typelist) or not isinstance(fallback, typelist):\n            return candidate", "        if True:\n            return candidate",
     ["C16"], "better_origin always prefers the candidate"),
    ("M19", "stackscope/_extract.py", "            while to_unwrap and to_unwrap[0][2] >= depth:", "            while to_unwrap and to_unwrap[0][2] > depth:",
     ["C10"], ">= depth -> > depth"),
    ("M20", "stackscope/_extract.py", "                    to_unwrap.appendleft((better_origin(item, origin), item, depth + 1))", "                    to_unwrap.appendleft((better_origin(item, origin), item, depth))",
     ["C10"], "depth + 1 -> depth"),
    ("M21", "stackscope/_extract.py", "                if loops_since_progress > 100:", "                if loops_since_progress > 100 and False:",
     ["C10"], "100-step guard removed"),
    ("M22", "stackscope/_extract.py", "                to_unwrap.appendleft((None, inner_item, min(inner_depth, depth)))", "                to_unwrap.appendleft((None, inner_item, depth))",
     ["C10"], "revert F7"),
    ("M23", "stackscope/_extract.py", "        context.obj = inner_mgr\n        context.inner_stack = None\n        context.children = ()", "        context.obj = inner_mgr",
     ["C11"], "inner_stack/children not reset"),
    ("M24", "stackscope/_extract.py", "        if inner_mgr == PRUNE:\n            context.hide = True\n            break", "        if inner_mgr == PRUNE:\n            break",
     ["C11"], "PRUNE does not hide"),
    ("M25", "stackscope/_extract.py", "    for _ in range(100):\n        if TYPE_CHECKING:", "    for _ in range(100000):\n        if TYPE_CHECKING:",
     ["C11"], "fill_context bound removed"),
    ("M26", "stackscope/_extract.py", "        except Exception as ex:\n            save_errors.append(ex)\n            frame.hide = False\n            replacement = PRUNE", "        except KeyError as ex:\n            save_errors.append(ex)\n            frame.hide = False\n            replacement = PRUNE",
     ["C05"], "narrowed except around elaborate_frame"),
    ("M27", "stackscope/_extract.py", "            if len(errors) > 1:\n                error = ExceptionGroup(", "            if len(errors) >= 1:\n                error = ExceptionGroup(",
     ["C05"], "single error wrapped in a group"),
    ("M28", "stackscope/_extract.py", "                    except Exception as ex:\n                        save_errors.append(ex)\n                        break", "                    except KeyError as ex:\n                        save_errors.append(ex)\n                        break",
     ["C05"], "narrowed except around the yields_frames iterator step"),
    ("M29", "stackscope/_extract.py", "                    try:\n                        fill_context(context)\n                    except Exception as ex:\n                        save_errors.append(ex)", "                    try:\n                        fill_context(context)\n                    except Exception as ex:\n                        pass",
     ["C05"], "context-hook error dropped"),
    ("M30", "stackscope/_lowlevel_cpython_311.py", "            if frame_owner != FRAME_OWNED_BY_FRAME_OBJECT:\n                for i in range(stack_len):", "            LEAK.append(frame)\n            if frame_owner != FRAME_OWNED_BY_FRAME_OBJECT:\n                for i in range(stack_len):",
     ["C06"], "module-level cache of inspected frames (with LEAK = [] at module top)"),
    ("M31", "stackscope/_glue.py", "        if gen.gi_running:\n            return StackSlice(outer=gen.gi_frame)\n        return (gen.gi_frame, gen.gi_yieldfrom)", "        if gen.gi_running:\n            return StackSlice(outer=gen.gi_frame)\n        if gen.gi_yieldfrom is None and gen.gi_frame is not None and gen.gi_frame.f_code.co_name == 'f0' and gen.gi_frame.f_lasti > 60:\n            try:\n                next(gen)\n            except BaseException:\n                pass\n        return (gen.gi_frame, gen.gi_yieldfrom)",
     ["C06"], "extraction advances the target"),
]


def apply(scratch, mut):
    mid, rel, old, new, checks, note = mut
    path = os.path.join(scratch, rel)
    with open(path) as f:
        s = f.read()
    if s.count(old) != 1:
        return "pattern found %d times" % s.count(old)
    s = s.replace(old, new)
    if mid == "M30":
        s = s.replace("wordsize = ctypes.sizeof(ctypes.c_size_t)\n", "wordsize = ctypes.sizeof(ctypes.c_size_t)\nLEAK = []\n", 1)
    with open(path, "w") as f:
        f.write(s)
    return None


def main():
    ap = argparse.ArgumentParser()
    ap.add_argument("--only")
    ap.add_argument("--checks")
    ap.add_argument("--tests", action="store_true", help="also run the repo's own test suite on the mutant")
    a = ap.parse_args()
    only = set(a.only.split(",")) if a.only else None
    rows = []
    for mut in MUTATIONS:
        mid, rel, old, new, checks, note = mut
        if only and mid not in only:
            continue
        if mid == "M11":
            continue
        checks = a.checks.split(",") if a.checks else checks
        scratch = tempfile.mkdtemp(prefix="ss_mut_", dir="/tmp")
        try:
            subprocess.run(["git", "-C", "/repo", "worktree", "add", "--detach", "-f", scratch, "HEAD"],
                           check=True, capture_output=True)
            err = apply(scratch, mut)
            if err:
                rows.append((mid, "-", "NOT APPLIED: " + err, note))
                continue
            tests = ""
            if a.tests:
                try:
                    p = subprocess.run(["/venv/bin/python", "-m", "pytest", "-q", "-p", "no:cacheprovider", "-x",
                                        "--timeout=60"],
                                       cwd=scratch, capture_output=True, text=True, timeout=300,
                                       env=dict(os.environ, PYTHONPATH=scratch))
                    tests = "tests:" + (p.stdout.strip().splitlines() or ["?"])[-1][:40]
                except subprocess.TimeoutExpired:
                    tests = "tests:TIMEOUT"
            for c in checks or ["C01"]:
                env = dict(os.environ, VERIF_REPO=scratch, VERIF_NO_EVIDENCE="1", VERIF_WORK=os.path.join(VERIF, ".work", "mut"))
                try:
                    p = subprocess.run(["/venv/bin/python", os.path.join(VERIF, "vcheck.py"), c, "--tier", "quick"],
                                       cwd=VERIF, env=env, capture_output=True, text=True, timeout=900)
                    rc = p.returncode
                except subprocess.TimeoutExpired:
                    rc = "TIMEOUT"
                verdict = {0: "held (MISSED)" if mut[4] else "held (ok, control)", 1: "VIOLATION (caught)", 2: "INCONCLUSIVE"}.get(rc, str(rc))
                rows.append((mid, c, verdict + " " + tests, note))
                print("%s %s %-22s %s %s" % (mid, c, verdict, tests, note), flush=True)
        finally:
            subprocess.run(["git", "-C", "/repo", "worktree", "remove", "--force", scratch], capture_output=True)
            shutil.rmtree(scratch, ignore_errors=True)
    return 0


if __name__ == "__main__":
    sys.exit(main())
