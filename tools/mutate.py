#!/venv/bin/python
"""Self-validation: apply small property-breaking edits to a scratch copy of /repo (outside /repo
and /verif, removed afterwards) and confirm that the named checks fire within their quick budget.

    tools/mutate.py [--only M03,M07] [--checks C01,C02]     -> table of (mutation, check, exit code)
"""
import argparse
import json
import os
import shutil
import subprocess
import sys
import tempfile

VERIF = os.path.dirname(os.path.dirname(os.path.abspath(__file__)))

# (id, file, old, new, checks that must catch it, note)
MUTATIONS = [
    ("M01", "stackscope/_lowlevel.py", "obj=frame_details.stack[block.level - 1].__self__,", "obj=frame_details.stack[block.level - 2].__self__,",
     ["C01", "C02"], "off-by-one in the value-stack slot of the exit method"),
    ("M02", "stackscope/_lowlevel_cpython_311.py", "    details.blocks.reverse()\n", "    pass\n",
     ["C01", "C02"], "handler chain left inside-out"),
    ("M03", "stackscope/_lowlevel.py", 'is_async=(insn.opname == "SETUP_ASYNC_WITH"),', 'is_async=(insn.opname != "SETUP_ASYNC_WITH"),',
     ["C01"], "is_async swapped (3.9/3.10)"),
    ("M04", "stackscope/_lowlevel.py", 'is_async = insn.opname == "BEFORE_ASYNC_WITH"\n            # 7:', 'is_async = insn.opname == "BEFORE_ASYNC_WITH"\n            is_async_real = is_async\n            # 7:',
     [], "no-op (control: must NOT fire)"),
    ("M05", "stackscope/_lowlevel.py", "        if code[offs] == op[\"CACHE\"] and offs >= 2 and code[offs - 2] == op[\"SEND\"]:", "        if False:",
     ["C02"], "revert F1 (3.12 running aexit)"),
    ("M06", "stackscope/_lowlevel.py", "                and prev.opname not in no_fallthrough\n", "                and prev.opname not in no_fallthrough and False\n",
     ["C01", "C02", "C20"], "F2 repair: ignore fall-through predecessors"),
    ("M07", "stackscope/_lowlevel.py", "        if args.args:\n            ret[-1].obj = args.locals[args.args[0]]", "        if False:\n            ret[-1].obj = args.locals[args.args[0]]",
     ["C01", "C02"], "exiting context loses obj (next_inner inference dropped)"),
    ("M08", "stackscope/_lowlevel_cpython_311.py", "stack_top_offset = stack_start_offset + wordsize * handler_depth", "stack_top_offset = stack_start_offset",
     ["C02"], "running frame's stack trimmed to depth 0"),
    ("M09", "stackscope/_lowlevel.py", "    for referent in gc.get_referents(root):", "    for referent in gc.get_referents(frame):",
     ["C20"], "referents mode uses the frame as GC root on 3.11+"),
    ("M10", "stackscope/_lowlevel.py", "        try:\n            ret = _contexts_active_by_trickery(frame)\n        except Exception as ex:", "        try:\n            ret = _contexts_active_by_trickery(frame)\n        except KeyError as ex:",
     ["C20", "C05"], "narrowed except around trickery"),
    ("M11", "stackscope/_lowlevel.py", "    global _can_use_trickery\n    with _trickery_lock:\n        _can_use_trickery = enabled", "    with _trickery_lock:\n        _tl.v = enabled",
     [], "placeholder (not applied)"),
    ("M12", "stackscope/_lowlevel.py", 'elif insn.opname in ("BINARY_SUBSCR", "STORE_SUBSCR"):\n                index = stack.pop()\n                container = stack.pop()', 'elif insn.opname in ("BINARY_SUBSCR", "STORE_SUBSCR"):\n                container = stack.pop()\n                index = stack.pop()',
     ["C08"], "subscript operand order"),
    ("M13", "stackscope/_lowlevel.py", "            ret[idx] = replace(info, varname=locals_by_id.get(id(info.obj)))", "            ret[idx] = replace(info, varname=next(iter(locals_by_id.values()), None))",
     ["C08"], "locals fallback names an arbitrary local"),
    ("M14", "stackscope/_lowlevel.py", "        if insn.starts_line is not None:\n            current_line = insn.starts_line\n        if insn.opname in (\"SETUP_WITH\"", "        if insn.starts_line is not None and current_line < 0:\n            current_line = insn.starts_line\n        if insn.opname in (\"SETUP_WITH\"",
     ["C08"], "start_line not tracked"),
    ("M15", "stackscope/_extract.py", "            rev_items: Iterable[StackItem]\n            if isinstance(unwrapped, collections.abc.Sequence):\n                rev_items = reversed(unwrapped)", "            rev_items: Iterable[StackItem]\n            if isinstance(unwrapped, collections.abc.Sequence):\n                rev_items = list(unwrapped)",
     ["C03", "C10"], "sequence items not reversed"),
    ("M16", "stackscope/_glue.py", "        return (agen.ag_frame, agen.ag_await)", "        return (agen.ag_frame, None)",
     ["C03"], "ag_await ignored"),
    ("M17", "stackscope/_types.py", "            self.lineno = self.pyframe.f_lineno", "            self.lineno = self.pyframe.f_code.co_firstlineno",
     ["C03"], "Frame.lineno from co_firstlineno"),
    ("M18", "stackscope/_extract.py", "        if isinstance(candidate, typelist) or not isinstance(fallback, typelist):\n            return candidate", "        if True:\n            return candidate",
     ["C16"], "better_origin always prefers the candidate"),
    ("M19", "stackscope/_extract.py", "            while to_unwrap and to_unwrap[0][2] >= depth:", "            while to_unwrap and to_unwrap[0][2] > depth:",
     ["C10"], ">= depth -> > depth"),
    ("M20", "stackscope/_extract.py", "                    to_unwrap.appendleft((better_origin(item, origin), item, depth + 1))", "                    to_unwrap.appendleft((better_origin(item, origin), item, depth))",
     ["C10"], "depth + 1 -> depth"),
    ("M21", "stackscope/_extract.py", "                if loops_since_progress > 100:", "                if loops_since_progress > 100 and False:",
     ["C10"], "100-step guard removed"),
    ("M22", "stackscope/_extract.py", "                to_unwrap.appendleft((None, inner_item, min(inner_depth, depth)))", "                to_unwrap.appendleft((None, inner_item, depth))",
     ["C10"], "revert F7"),
    ("M23", "stackscope/_extract.py", "        context.obj = inner_mgr\n        context.inner_stack = None\n        context.children = ()", "        context.obj = inner_mgr",
     ["C11"], "inner_stack/children not reset"),
    ("M24", "stackscope/_extract.py", "        if inner_mgr == PRUNE:\n            context.hide = True\n            break", "        if inner_mgr == PRUNE:\n            break",
     ["C11"], "PRUNE does not hide"),
    ("M25", "stackscope/_extract.py", "    for _ in range(100):\n        if TYPE_CHECKING:", "    for _ in range(100000):\n        if TYPE_CHECKING:",
     ["C11"], "fill_context bound removed"),
    ("M26", "stackscope/_extract.py", "        except Exception as ex:\n            save_errors.append(ex)\n            frame.hide = False\n            replacement = PRUNE", "        except KeyError as ex:\n            save_errors.append(ex)\n            frame.hide = False\n            replacement = PRUNE",
     ["C05"], "narrowed except around elaborate_frame"),
    ("M27", "stackscope/_extract.py", "            if len(errors) > 1:\n                error = ExceptionGroup(", "            if len(errors) >= 1:\n                error = ExceptionGroup(",
     ["C05"], "single error wrapped in a group"),
    ("M28", "stackscope/_extract.py", "                    except Exception as ex:\n                        save_errors.append(ex)\n                        break", "                    except KeyError as ex:\n                        save_errors.append(ex)\n                        break",
     ["C05"], "narrowed except around the yields_frames iterator step"),
    ("M29", "stackscope/_extract.py", "                    try:\n                        fill_context(context)\n                    except Exception as ex:\n                        save_errors.append(ex)", "                    try:\n                        fill_context(context)\n                    except Exception as ex:\n                        pass",
     ["C05"], "context-hook error dropped"),
    ("M30", "stackscope/_lowlevel_cpython_311.py", "            if frame_owner != FRAME_OWNED_BY_FRAME_OBJECT:\n                for i in range(stack_len):", "            LEAK.append(frame)\n            if frame_owner != FRAME_OWNED_BY_FRAME_OBJECT:\n                for i in range(stack_len):",
     ["C06"], "module-level cache of inspected frames (with LEAK = [] at module top)"),
    ("M31", "stackscope/_glue.py", "        if gen.gi_running:\n            return StackSlice(outer=gen.gi_frame)\n        return (gen.gi_frame, gen.gi_yieldfrom)", "        if gen.gi_running:\n            return StackSlice(outer=gen.gi_frame)\n        if gen.gi_yieldfrom is None and gen.gi_frame is not None and gen.gi_frame.f_code.co_name == 'f0' and gen.gi_frame.f_lasti > 60:\n            try:\n                next(gen)\n            except BaseException:\n                pass\n        return (gen.gi_frame, gen.gi_yieldfrom)",
     ["C06"], "extraction advances the target"),
    ("M32", "stackscope/_glue.py", "from_idx = this_thread_frames.index(inner_frame) - 1", "from_idx = this_thread_frames.index(inner_frame)",
     ["C04"], "from_idx - 1 -> from_idx"),
    ("M33", "stackscope/_glue.py", "        if inner_frame is None and outer_frame is not None:\n            del frames[spec.limit :]", "        if inner_frame is not None and outer_frame is not None:\n            del frames[spec.limit :]",
     ["C04"], "limit keeps the wrong end"),
    ("M34", "stackscope/_glue.py", "            greenlet = greenlet.parent\n            if greenlet is not None:\n                current = greenlet.gr_frame", "            greenlet = None",
     ["C04"], "greenlet parent stitching dropped"),
    ("M35", "stackscope/_lowlevel_cpython_311.py", "                    assert frame.f_lasti == lasti_before\n\n                    try:", "                    try:",
     ["C07"], "per-slot f_lasti re-check deleted"),
    ("M36", "stackscope/_lowlevel_cpython_311.py", "            # otherwise this was probably a concurrent modification, try again\n            continue", "            # otherwise this was probably a concurrent modification, try again\n            raise",
     ["C07"], "retry loop: continue -> raise"),
    ("M37", "stackscope/_glue.py", "        if inner_frame is None or not thread.is_alive() or not was_alive:", "        if inner_frame is None or not was_alive:",
     ["C07"], "alive-after test dropped (ident reuse)"),
    ("M38", "stackscope/_glue.py", "        context.children = children\n", "        context.children = children[::-1]\n",
     ["C09"], "exit-stack children reversed"),
    ("M39", "stackscope/_glue.py", "        if not context.is_exiting:\n            context.inner_stack = _extract.extract_child(mgr.gen, for_task=False)\n        if hasattr(mgr, \"func\"):", "        if True:\n            context.inner_stack = _extract.extract_child(mgr.gen, for_task=False)\n        if hasattr(mgr, \"func\"):",
     ["C09"], "inner_stack extracted while exiting"),
    ("M40", "stackscope/_code_dispatch.py", "        registry = IdentityDict[types.CodeType, Callable[Concatenate[T, P], R]]()", "        registry = {}",
     ["C12"], "registry keyed by equality"),
    ("M41", "stackscope/_customization.py", "            if replacement is not None:  # pragma: no branch\n                return replacement\n", "            if replacement is not None and not prune:  # pragma: no branch\n                return replacement\n",
     ["C12"], "prune applied although elaborate returned a replacement"),
    ("M42", "stackscope/_extract.py", "class ExtractOptions(threading.local):", "class ExtractOptions(object):",
     ["C13"], "options not thread-local"),
    ("M43", "stackscope/_extract.py", "        try:\n            yield\n        finally:\n            (self.with_contexts, self.recurse_child_tasks) = prev", "        yield\n        (self.with_contexts, self.recurse_child_tasks) = prev",
     ["C13"], "options not restored after an exception"),
    ("M44", "stackscope/_extract.py", "    if current_options.recurse_child_tasks is None:\n        raise RuntimeError(", "    if False:\n        raise RuntimeError(",
     ["C13"], "extract_child guard removed"),
    ("M45", "stackscope/_extract.py", "    if for_task and not current_options.recurse_child_tasks:", "    if for_task:",
     ["C13", "C14"], "stub ignores recurse_child_tasks"),
    ("M46", "stackscope/_glue.py", "            for child_task in context.obj.child_tasks\n", "            for child_task in list(context.obj.child_tasks)[1:]\n",
     ["C14"], "a child task dropped"),
    ("M47", "stackscope/_glue.py", "            if not glet:  # dead or not started\n                return []\n", "",
     ["C15"], "dead/unstarted greenlet not special-cased"),
    ("M48", "stackscope/_extract.py", "            if errors:\n                raise errors[0]\n            else:\n                raise RuntimeError(", "            if False:\n                raise errors[0]\n            else:\n                raise RuntimeError(",
     ["C16"], "extract_outermost does not re-raise the recorded error"),
    ("M49", "stackscope/_glue.py", "    with glue_lock:\n        if _verifhooks.ENABLED:\n            _verifhooks.point(\"lock_acquired\")", "    if True:\n        if _verifhooks.ENABLED:\n            _verifhooks.point(\"lock_acquired\")",
     ["C17"], "glue lock removed"),
    ("M50", "stackscope/_glue.py", "        module_names = tuple(sys.modules)\n        for module_name in module_names:", "        module_names = tuple(sys.modules)\n        _sys_modules_len_cache[0] = len(module_names)\n        for module_name in module_names:",
     ["C17"], "length cache updated before the scan"),
    ("M51", "stackscope/_glue.py", "                if module_fn is not None:\n                    module_fn()\n                elif builtin_fn is not None:\n                    builtin_fn()", "                if builtin_fn is not None:\n                    builtin_fn()\n                elif module_fn is not None:\n                    module_fn()",
     ["C17"], "built-in glue preferred over module glue"),
    ("M52", "stackscope/_types.py", "        start_leaf = \"+ \" if opts.ascii_only else \"╚ \"", "        start_leaf = \"+ \" if opts.ascii_only else \"╠ \"",
     ["C18"], "leaf marker swapped"),
    ("M53", "stackscope/_types.py", "        if self.hide and not opts.show_hidden_frames:\n            return []\n\n        start_child", "        if False:\n            return []\n\n        start_child",
     ["C18"], "hidden contexts printed"),
    ("M54", "stackscope/_types.py", "                marker = start_child if idx == 0 else continue_child\n", "                marker = start_child if idx <= 1 else continue_child\n",
     ["C18"], "child prefix on the wrong line"),
    ("M55", "stackscope/_types.py", "        if not (self.contexts and self.contexts[-1].is_exiting):\n            yield self.as_stdlib_summary(capture_locals=capture_locals)", "        if True:\n            yield self.as_stdlib_summary(capture_locals=capture_locals)",
     ["C19"], "frame entry not omitted when the last context is exiting"),
    ("M56", "stackscope/_types.py", "            self.start_line or parent.lineno,", "            parent.lineno,",
     ["C19"], "context entries not at the with line"),
    ("M57", "stackscope/_lowlevel.py", "    with _trickery_lock:\n        _can_use_trickery = enabled\n", "    with _trickery_lock:\n        if enabled is not None:\n            _can_use_trickery = enabled\n",
     ["C20"], "set_trickery_enabled(None) does not restore auto-detection"),
    ("M58", "stackscope/_lowlevel.py", "            offs -= 2  # back up to PUSH_EXC_INFO\n", "            pass\n",
     ["C01", "C02"], "3.11+: exception-path exit keyed by the wrong offset"),
    ("M59", "stackscope/_extract.py", "            except Exception as ex:\n                unwrapped = None\n                save_errors.append(ex)", "            except Exception as ex:\n                unwrapped = None",
     ["C05"], "unwrap error dropped"),
    ("M60", "stackscope/_glue.py", "                obj=manager if manager is not None else callback,", "                obj=manager or callback,",
     ["C09"], "revert F9"),
    ("M61", "stackscope/_glue.py", "            outer_frame = inner_frame\n            while outer_frame.f_back is not None:\n                outer_frame = outer_frame.f_back\n        return StackSlice", "            pass\n        return StackSlice",
     ["C15"], "revert F8"),
    ("M62", "stackscope/_customization.py", "        if hide_line:\n            frame.hide_line = True\n", "",
     ["C12"], "revert F3"),
    ("M63", "stackscope/_extract.py", "                ) or current is not (\n                    getattr(origin, \"gi_frame\", None)\n                    or getattr(origin, \"cr_frame\", None)\n                    or getattr(origin, \"ag_frame\", None)\n                ):", "                ):",
     ["C16"], "revert F5"),
    ("M64", "stackscope/_lowlevel.py", "            elif insn.opname in (\"PRECALL\", \"CACHE\", \"PUSH_NULL\"):", "            elif insn.opname in (\"PRECALL\", \"CACHE\"):",
     ["C08"], "revert F12"),
]



def apply(scratch, mut):
    mid, rel, old, new, checks, note = mut
    path = os.path.join(scratch, rel)
    with open(path) as f:
        s = f.read()
    if s.count(old) != 1:
        return "pattern found %d times" % s.count(old)
    s = s.replace(old, new)
    if mid == "M30":
        s = s.replace("wordsize = ctypes.sizeof(ctypes.c_size_t)\n", "wordsize = ctypes.sizeof(ctypes.c_size_t)\nLEAK = []\n", 1)
    with open(path, "w") as f:
        f.write(s)
    return None


def main():
    ap = argparse.ArgumentParser()
    ap.add_argument("--only")
    ap.add_argument("--checks")
    ap.add_argument("--tests", action="store_true", help="also run the repo's own test suite on the mutant")
    a = ap.parse_args()
    only = set(a.only.split(",")) if a.only else None
    rows = []
    for mut in MUTATIONS:
        mid, rel, old, new, checks, note = mut
        if only and mid not in only:
            continue
        if mid == "M11":
            continue
        checks = a.checks.split(",") if a.checks else checks
        scratch = tempfile.mkdtemp(prefix="ss_mut_", dir="/tmp")
        try:
            subprocess.run(["git", "-C", "/repo", "worktree", "add", "--detach", "-f", scratch, "HEAD"],
                           check=True, capture_output=True)
            err = apply(scratch, mut)
            if err:
                rows.append((mid, "-", "NOT APPLIED: " + err, note))
                print("%s NOT APPLIED: %s" % (mid, err), flush=True)
                continue
            tests = ""
            if a.tests:
                try:
                    p = subprocess.run(["/venv/bin/python", "-m", "pytest", "-q", "-p", "no:cacheprovider", "-x",
                                        "--timeout=60"],
                                       cwd=scratch, capture_output=True, text=True, timeout=300,
                                       env=dict(os.environ, PYTHONPATH=scratch))
                    tests = "tests:" + (p.stdout.strip().splitlines() or ["?"])[-1][:40]
                except subprocess.TimeoutExpired:
                    tests = "tests:TIMEOUT"
            for c in checks or ["C01"]:
                env = dict(os.environ, VERIF_REPO=scratch, VERIF_NO_EVIDENCE="1", VERIF_WORK=os.path.join(VERIF, ".work", "mut"))
                try:
                    p = subprocess.run(["/venv/bin/python", os.path.join(VERIF, "vcheck.py"), c, "--tier", "quick"],
                                       cwd=VERIF, env=env, capture_output=True, text=True, timeout=900)
                    rc = p.returncode
                except subprocess.TimeoutExpired:
                    rc = "TIMEOUT"
                verdict = {0: "held (MISSED)" if mut[4] else "held (ok, control)", 1: "VIOLATION (caught)", 2: "INCONCLUSIVE"}.get(rc, str(rc))
                rows.append((mid, c, verdict + " " + tests, note))
                print("%s %s %-22s %s %s" % (mid, c, verdict, tests, note), flush=True)
        finally:
            subprocess.run(["git", "-C", "/repo", "worktree", "remove", "--force", scratch], capture_output=True)
            shutil.rmtree(scratch, ignore_errors=True)
    return 0


if __name__ == "__main__":
    sys.exit(main())
