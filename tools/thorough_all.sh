#!/bin/bash
# run every thorough check once (sequentially); summary lines to stdout
cd "$(dirname "$0")/.."
for c in ${1:-C12 C15 C05 C13 C14 C19 C18 C10 C11 C09 C03 C16 C04 C17 C07 C20 C08 C06 C02 C01}; do
  start=$(date +%s)
  out=$(/venv/bin/python vcheck.py $c --tier thorough 2>&1)
  rc=$?
  echo "=== $c rc=$rc $(( $(date +%s) - start ))s"
  echo "$out" | grep -E "tier=thorough|^(HELD|INCONCLUSIVE|witness|KNOWN|VIOLATION)" | head -8 | cut -c1-700
done
