#!/venv/bin/python
"""Mechanical mutation pass: small AST-located edits of stackscope's source (operator swaps, negated
conditions, constants +-1, deleted simple statements, and/or swaps), one at a time, on a scratch worktree
outside /repo and /verif.  A mutant is of interest only if the repository's own tests still pass with it;
then the quick checks mapped to the mutated function are run against it.

    tools/automut.py --n 60 --seed 1 [--files _extract.py,_glue.py] > .work/automut.log

Prints one line per mutant: id, location, edit, tests verdict, per-check verdict.  Survivors (tests pass, no
check fires) are candidates for equivalent mutants or for gaps; they are listed again at the end.
"""
import argparse
import ast
import os
import random
import shutil
import subprocess
import sys
import tempfile

VERIF = os.path.dirname(os.path.dirname(os.path.abspath(__file__)))
FILES = ["_extract.py", "_glue.py", "_lowlevel.py", "_lowlevel_cpython_311.py", "_types.py", "_customization.py",
         "_code_dispatch.py"]


def checks_for(fname, func):
    f = (func or "").lower()
    if fname == "_types.py":
        return ["C18", "C19"]
    if fname in ("_customization.py", "_code_dispatch.py"):
        return ["C12", "C10", "C11"]
    if fname == "_lowlevel_cpython_311.py":
        return ["C01", "C02", "C07"]
    if fname == "_lowlevel.py":
        if "target" in f or "analyze_with" in f:
            return ["C08", "C01"]
        if "trickery" in f or "referents" in f:
            return ["C20", "C01", "C02"]
        return ["C01", "C02", "C08", "C20"]
    if fname == "_extract.py":
        if "option" in f or "push" in f:
            return ["C13", "C11"]
        if "fill_context" in f or "recorded" in f:
            return ["C11", "C05", "C09"]
        if "outermost" in f or "origin" in f:
            return ["C16", "C03"]
        if "since" in f or "until" in f:
            return ["C04"]
        return ["C10", "C03", "C05", "C16"]
    if fname == "_glue.py":
        if "trio" in f or "thread_run" in f or "nursery" in f or "system_task" in f:
            return ["C14"]
        if "greenlet" in f or "greenback" in f or "outcome" in f:
            return ["C15"]
        if "exit_stack" in f or "contextmanager" in f or "contextlib" in f:
            return ["C09", "C11", "C05"]
        if "unwrap_thread" in f or "threading" in f:
            return ["C07"]
        if "stackslice" in f or "true_caller" in f:
            return ["C04", "C15"]
        if "glue_for" in f or "add_glue" in f or "builtin_glue" in f or "decorate" in f:
            return ["C17"]
        if "asyncgen" in f or "coro" in f or "geniter" in f or "anext" in f or "asend" in f or "builtins" in f:
            return ["C03", "C16"]
        return ["C03", "C09", "C14"]
    return ["C01"]


class Sites(ast.NodeVisitor):
    def __init__(self, src):
        self.lines = src.split("\n")
        self.sites = []   # (lineno, col_start, col_end, replacement, description, func)
        self.func = []

    def seg(self, node):
        return node.lineno, node.col_offset, node.end_lineno, node.end_col_offset

    def visit_FunctionDef(self, node):
        self.func.append(node.name)
        self.generic_visit(node)
        self.func.pop()

    visit_AsyncFunctionDef = visit_FunctionDef

    def cur(self):
        return ".".join(self.func) or "<module>"

    def visit_Compare(self, node):
        if len(node.ops) == 1 and node.left.end_lineno == node.comparators[0].lineno == node.lineno:
            line = self.lines[node.lineno - 1]
            a, b = node.left.end_col_offset, node.comparators[0].col_offset
            optxt = line[a:b]
            swaps = {"==": "!=", "!=": "==", "<": "<=", "<=": "<", ">": ">=", ">=": ">", " is not ": " is ",
                     " is ": " is not ", " not in ": " in ", " in ": " not in "}
            for k, v in swaps.items():
                if optxt.strip() == k.strip() and (k.strip() not in ("is", "in") or optxt.strip() == k.strip()):
                    self.sites.append((node.lineno, a, b, " " + v.strip() + " ", "cmp %s -> %s" % (k.strip(), v.strip()),
                                       self.cur()))
                    break
        self.generic_visit(node)

    def visit_BoolOp(self, node):
        if len(node.values) >= 2 and node.values[0].end_lineno == node.values[1].lineno:
            line = self.lines[node.values[0].end_lineno - 1]
            a, b = node.values[0].end_col_offset, node.values[1].col_offset
            txt = line[a:b].strip()
            if txt in ("and", "or"):
                self.sites.append((node.values[0].end_lineno, a, b, " %s " % ("or" if txt == "and" else "and"),
                                   "boolop %s swapped" % txt, self.cur()))
        self.generic_visit(node)

    def visit_UnaryOp(self, node):
        if isinstance(node.op, ast.Not) and node.lineno == node.operand.lineno:
            self.sites.append((node.lineno, node.col_offset, node.operand.col_offset, "", "`not` removed", self.cur()))
        self.generic_visit(node)

    def visit_Constant(self, node):
        if isinstance(node.value, int) and not isinstance(node.value, bool) and 0 <= node.value <= 100 \
                and node.lineno == node.end_lineno:
            self.sites.append((node.lineno, node.col_offset, node.end_col_offset, str(node.value + 1),
                               "const %d -> %d" % (node.value, node.value + 1), self.cur()))
        self.generic_visit(node)

    def visit_If(self, node):
        t = node.test
        if t.lineno == t.end_lineno:
            line = self.lines[t.lineno - 1]
            self.sites.append((t.lineno, t.col_offset, t.end_col_offset, "not (%s)" % line[t.col_offset:t.end_col_offset],
                               "if condition negated", self.cur()))
        self.generic_visit(node)

    def simple_stmt(self, node, what):
        if node.lineno == node.end_lineno and self.func:
            self.sites.append((node.lineno, node.col_offset, node.end_col_offset, "pass", "%s deleted" % what, self.cur()))

    def visit_Expr(self, node):
        if isinstance(node.value, ast.Call):
            self.simple_stmt(node, "call statement")
        self.generic_visit(node)

    def visit_Assign(self, node):
        if isinstance(node.targets[0], (ast.Attribute, ast.Subscript)):
            self.simple_stmt(node, "attribute/item assignment")
        self.generic_visit(node)

    def visit_AugAssign(self, node):
        self.simple_stmt(node, "augmented assignment")
        self.generic_visit(node)

    def visit_Break(self, node):
        self.sites.append((node.lineno, node.col_offset, node.end_col_offset, "continue", "break -> continue", self.cur()))

    def visit_Continue(self, node):
        self.sites.append((node.lineno, node.col_offset, node.end_col_offset, "break", "continue -> break", self.cur()))


def run(cmd, **kw):
    return subprocess.run(cmd, capture_output=True, text=True, **kw)


def main():
    ap = argparse.ArgumentParser()
    ap.add_argument("--n", type=int, default=40)
    ap.add_argument("--seed", type=int, default=1)
    ap.add_argument("--files")
    a = ap.parse_args()
    rng = random.Random(a.seed)
    files = a.files.split(",") if a.files else FILES
    allsites = []
    for fn in files:
        path = os.path.join("/repo/stackscope", fn)
        src = open(path).read()
        v = Sites(src)
        v.visit(ast.parse(src))
        for s in v.sites:
            if "pragma: no cover" in v.lines[s[0] - 1] or "_verifhooks" in v.lines[s[0] - 1]:
                continue
            allsites.append((fn,) + s)
    rng.shuffle(allsites)
    survivors = []
    done = 0
    for site in allsites:
        if done >= a.n:
            break
        fn, lineno, c0, c1, repl, desc, func = site
        scratch = tempfile.mkdtemp(prefix="ss_amut_", dir="/tmp")
        try:
            run(["git", "-C", "/repo", "worktree", "add", "--detach", "-f", scratch, "HEAD"], check=True)
            path = os.path.join(scratch, "stackscope", fn)
            lines = open(path).read().split("\n")
            old = lines[lineno - 1]
            lines[lineno - 1] = old[:c0] + repl + old[c1:]
            open(path, "w").write("\n".join(lines))
            env = dict(os.environ, PYTHONPATH=scratch)
            env.pop("STACKSCOPE_VERIF", None)
            p = run(["/venv/bin/python", "-c", "import stackscope"], cwd=scratch, env=env, timeout=60)
            if p.returncode != 0:
                continue   # does not even import: not interesting
            try:
                p = run(["/venv/bin/python", "-m", "pytest", "-q", "-x", "-p", "no:cacheprovider", "--timeout=60"],
                        cwd=scratch, env=env, timeout=400)
                tests_pass = p.returncode == 0
            except subprocess.TimeoutExpired:
                tests_pass = False
            if not tests_pass:
                continue   # the repository's own tests notice it
            done += 1
            verdicts = {}
            caught = False
            for c in checks_for(fn, func):
                cenv = dict(os.environ, VERIF_REPO=scratch, VERIF_NO_EVIDENCE="1",
                            VERIF_WORK=os.path.join(VERIF, ".work", "automut"))
                try:
                    r = run(["/venv/bin/python", os.path.join(VERIF, "vcheck.py"), c, "--tier", "quick"], cwd=VERIF,
                            env=cenv, timeout=1500)
                    verdicts[c] = {0: "held", 1: "CAUGHT", 2: "inconclusive"}.get(r.returncode, str(r.returncode))
                except subprocess.TimeoutExpired:
                    verdicts[c] = "timeout"
                if verdicts[c] in ("CAUGHT", "timeout"):
                    caught = True
                    break
            line = "%s:%d [%s] %s | %r -> %r | %s" % (fn, lineno, func, desc, old.strip()[:70],
                                                     (old[:c0] + repl + old[c1:]).strip()[:70], verdicts)
            print(("CAUGHT   " if caught else "SURVIVED ") + line, flush=True)
            if not caught:
                survivors.append(line)
        finally:
            run(["git", "-C", "/repo", "worktree", "remove", "--force", scratch])
            shutil.rmtree(scratch, ignore_errors=True)
    print("mutants passing the repository's tests: %d, survivors: %d" % (done, len(survivors)))
    for s in survivors:
        print("SURVIVOR " + s)


if __name__ == "__main__":
    main()
