import sys, types, warnings, io, collections, contextlib
import stackscope
from stackscope import lowlevel as ll, _lowlevel as LL, _lowlevel_cpython_311 as L311
@types.coroutine
def sus(v): return (yield v)
class A:
    async def __aenter__(s): return s
    async def __aexit__(s,*e): await sus('x')
class S:
    def __enter__(s): return s
    def __exit__(s,*e): pass
async def f():
    with S() as s1:
        async with A() as a1:
            await sus(1)
co=f(); co.send(None)
ll.contexts_active_in_frame(co.cr_frame, co)   # warm up (trickery self-test)
mon=sys.monitoring; TOOL=4; mon.use_tool_id(TOOL,'fp')
def codes_of(fn):
    out=[]
    def rec(c):
        out.append(c)
        for k in c.co_consts:
            if isinstance(k, types.CodeType): rec(k)
    rec(fn.__code__); return out
targets=[]
for fn in (LL._contexts_active_by_trickery, LL.analyze_with_blocks, LL.currently_exiting_context, LL.describe_assignment_target, L311.inspect_frame, LL._parse_exception_table):
    targets+=codes_of(fn)
class Injected(Exception): pass
STATE=dict(k=None,n=0,inside=False,hit=None)
def on_line(code,line):
    if not STATE['inside']: return
    STATE['n']+=1
    if STATE['n']==STATE['k']:
        STATE['hit']=(code.co_name,line); raise Injected(STATE['k'])
mon.register_callback(TOOL, mon.events.LINE, on_line)
for c in targets: mon.set_local_events(TOOL, c, mon.events.LINE)
orig=LL._contexts_active_by_trickery
def wrapped(frame):
    STATE['inside']=True
    try: return orig(frame)
    finally: STATE['inside']=False
LL._contexts_active_by_trickery=wrapped
# count events fault-free
STATE.update(k=None,n=0); ll.contexts_active_in_frame(co.cr_frame, co); total=STATE['n']
print('line events inside trickery:', total)
res=collections.Counter(); hits=collections.Counter()
for k in range(1,total+1):
    STATE.update(k=k,n=0,hit=None)
    old=sys.stderr; sys.stderr=io.StringIO()
    try:
        with warnings.catch_warnings(record=True) as w:
            warnings.simplefilter('always')
            try:
                r=ll.contexts_active_in_frame(co.cr_frame, co); raised=None
            except BaseException as e: r=None; raised=e
    finally: sys.stderr=old
    if raised is not None: res['RAISED '+type(raised).__name__]+=1
    elif STATE['hit'] is None: res['not hit']+=1
    else:
        warn = any(issubclass(x.category, stackscope.InspectionWarning) for x in w)
        objs=[type(c.obj).__name__ for c in r]
        res[('warned' if warn else 'NOWARN', tuple(objs))]+=1
        if not warn: print('NOWARN at', STATE['hit'], k)
        hits[STATE['hit'][0]]+=1
for k,v in res.items(): print(k,v)
print(dict(hits))
