import sys, random, contextlib, stackscope
from stackscope import Context, Stack, fill_context, unwrap_context, elaborate_context, unwrap_context_generator, PRUNE, elaborate_frame, extract_since
rng=random.Random(0)
LOG=[]
class W:
    def __init__(s,i): s.i=i
    def __enter__(s): return s
    def __exit__(s,*e): pass
    def __repr__(s): return f"W{s.i}"
PLAN={}   # i -> dict(unwrap=..., elab=...)
@unwrap_context.register(W)
def _(mgr, ctx):
    LOG.append(('unwrap', mgr.i, ctx.obj is mgr, ctx.inner_stack is None, tuple(ctx.children)==()))
    a=PLAN[mgr.i]['unwrap']
    if a=='none': return None
    if a=='prune': return PRUNE
    if a=='self': return mgr
    return a   # next manager
@elaborate_context.register(W)
def _(mgr, ctx):
    LOG.append(('elab', mgr.i, ctx.obj is mgr, ctx.inner_stack is None, tuple(ctx.children)==()))
    e=PLAN[mgr.i]['elab']
    if 'desc' in e: ctx.description=f"d{mgr.i}"
    if 'children' in e: ctx.children=[Context(obj=None,is_async=False)]
    if 'inner' in e: ctx.inner_stack=Stack(root=None,frames=[])
def model(chain):
    # chain: list of managers W0.. ; returns expected log + final
    log=[]; i=0; steps=0
    while True:
        m=chain[i]; log.append(('elab',m.i)); log.append(('unwrap',m.i))
        a=PLAN[m.i]['unwrap']; steps+=1
        if a=='none': return log,'stop',m
        if a=='prune': return log,'hide',m
        if steps>=100: return log,'error',None
        if a=='self': continue
        i+=1
bad=0;n=0
for case in range(2000):
    L=rng.randint(1,5); ms=[W(k) for k in range(L)]
    PLAN.clear()
    for k,m in enumerate(ms):
        last=k==L-1
        PLAN[k]=dict(unwrap=(rng.choice(['none','prune','self']) if last or rng.random()<0.2 else ms[k+1]), elab=rng.sample(['desc','children','inner'], rng.randint(0,3)))
    del LOG[:]
    ctx=Context(obj=ms[0], is_async=False, is_exiting=rng.random()<0.3)
    err=None
    try: fill_context(ctx)
    except RuntimeError as e: err=e
    elog,outcome,final=model(ms)
    n+=1
    got=[(x[0],x[1]) for x in LOG]
    probs=[]
    if outcome=='error':
        if err is None: probs.append('no error on cycle')
        if len([x for x in LOG if x[0]=='unwrap'])>101: probs.append('too many unwraps')
    else:
        if err is not None: probs.append('unexpected error')
        if got!=elog: probs.append(('log',got,elog))
        if ctx.obj is not final: probs.append('final obj')
        if ctx.hide!=(outcome=='hide'): probs.append('hide')
        # every call after the first elab must see obj==mgr ; every elab after an unwrap sees reset state
        for j,x in enumerate(LOG):
            if not x[2]: probs.append(('obj not replaced at',j))
            if x[0]=='elab' and j>0 and LOG[j-1][0]=='unwrap' and LOG[j-1][1]!=x[1] and not (x[3] and x[4]): probs.append(('not reset',j))
        e=PLAN[final.i]['elab']
        if ('desc' in e)!=(ctx.description==f"d{final.i}"): probs.append('description')
    # same result inside an extract
    if probs:
        bad+=1
        if bad<5: print(probs[:2])
print('cases',n,'bad',bad)
