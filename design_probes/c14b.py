import sys, trio, threading, stackscope, warnings
results={}
DEPTH=[0]
def sync_lvl(k):
    # running in worker thread
    if k>=DEPTH[0]:
        return bottom_sync()
    return trio.from_thread.run(async_lvl, k+1)
async def async_lvl(k):
    if k>=DEPTH[0]:
        return await bottom_async()
    return await trio.to_thread.run_sync(sync_lvl, k+1)
EV=threading.Event()
def bottom_sync():
    trio.from_thread.run_sync(ARRIVED.set)
    EV.wait()
async def bottom_async():
    ARRIVED.set()
    await trio.sleep_forever()
async def main(depth):
    global ARRIVED
    ARRIVED=trio.Event(); DEPTH[0]=depth; EV.clear()
    async with trio.open_nursery() as n:
        async def runner():
            await async_lvl(0)
        n.start_soon(runner, name='runner')
        await ARRIVED.wait()
        await trio.sleep(0.05)
        task=[t for t in n.child_tasks][0]
        with warnings.catch_warnings(record=True) as w:
            warnings.simplefilter('always')
            s=stackscope.extract(task)
        results[depth]=(s,[str(x.message)[:80] for x in w])
        EV.set(); n.cancel_scope.cancel()
for d in range(0,5):
    try:
        trio.run(main,d)
    except BaseException as e:
        print('depth',d,'RUN RAISED',repr(e)[:200]); continue
    s,w=results[d]
    vis=[f.funcname for f in s.frames if not f.hide]
    user=[f.funcname for f in s.frames if f.funcname in ('runner','sync_lvl','async_lvl','bottom_sync','bottom_async')]
    print(d, user, 'err', s.error, 'warn', w)
    print('   visible', vis)
