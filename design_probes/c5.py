import stackscope, sys
class RaisingClass:
    @property
    def __class__(self): raise ValueError("no class for you")
class LyingClass:
    @property
    def __class__(self): return int
class BadRepr:
    def __repr__(self): raise ValueError("no repr")
class BadBool:
    def __bool__(self): raise ValueError("no bool")
class Slots:
    __slots__=()
class BadGetattr:
    def __getattr__(self, n): raise ValueError(n)
class BadEq:
    def __eq__(self, o): raise ValueError("eq")
    __hash__=None
import types
objs=[None, 0, "s", b"b", 3.5, (), [], {}, set(), object(), int, sys, len, lambda: 0, RaisingClass(), LyingClass(), BadRepr(), BadBool(), Slots(), BadGetattr(), BadEq(), types.SimpleNamespace(), iter([]), (x for x in []), Exception("x"), NotImplemented, Ellipsis, sys._getframe(0), sys._getframe(0).f_code, stackscope.StackSlice(limit=0), stackscope.StackSlice(limit=-1), stackscope.StackSlice(outer=5), stackscope.StackSlice(inner="x")]
for o in objs:
    try:
        s=stackscope.extract(o)
        try: txt=str(s); fl="".join(s.format_flat()); sm=s.as_stdlib_summary(show_contexts=True)
        except Exception as e: print('FORMAT RAISED', type(o).__name__, type(e).__name__, e)
        print('ok', type(o).__name__ if not isinstance(o,(RaisingClass,)) else 'RaisingClass', len(s.frames), type(s.error).__name__ if s.error else None)
    except BaseException as e:
        print('RAISED', type(o).__name__ if not isinstance(o,(RaisingClass,)) else 'RaisingClass', type(e).__name__, str(e)[:80])
