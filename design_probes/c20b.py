import sys
src=open('c1.py').read()
src=src.replace("bad=0;obs=0","bad=0;obs=0\nll.set_trickery_enabled(False)\nENTERING=lambda: [m for ev,m in LOG if ev=='es' and ('ee',m) not in LOG]")
# replace the comparison with over-approximation oracle
src=src.replace("if got!=exp or w or st.error:", """
                ent=set(map(id,ENTERING()))
                T_non=[e for e in exp if not e[2]]; T_ex=[e for e in exp if e[2]]
                G_non=[g for g in got if not g[2]]; G_ex=[g for g in got if g[2]]
                okk = (len(G_ex)==len(T_ex)) and (not G_ex or (got[-1][2] and G_ex[0][1]==T_ex[0][1]))
                # subsequence
                it=iter(G_non); okk = okk and all(any((g[0] is t[0] and g[1]==t[1]) for g in it) for t in T_non)
                extras=[g for g in G_non if not any(g[0] is t[0] for t in T_non)]
                okk = okk and all(id(g[0]) in ent or (T_ex and g[0] is T_ex[0][0]) for g in extras)
                if not okk or w or st.error:""")
exec(compile(src,'c20b','exec'))
