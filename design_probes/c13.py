import sys, threading, types, stackscope, contextlib
from stackscope import extract, extract_child, extract_outermost, fill_context, unwrap_stackitem, elaborate_context, Context
@types.coroutine
def sus(v): return (yield v)
class CM:
    def __enter__(s): return s
    def __exit__(s,*e): pass
async def fixed():
    with CM() as c:
        await sus(1)
FIX=fixed(); FIX.send(None)
class Token: pass
class Item:
    def __init__(s, script): s.script=script   # list of actions to perform when unwrapped
OBS=threading.local()
def observe():
    st=extract_child(Token(), for_task=True)   # stub iff not recurse
    recurse = st.leaf is not None or bool(st.frames) or st.error is not None or False
    # stub: Stack(root=token, frames=[]) with leaf None ; populated: leaf=token (irreducible)
    recurse = st.leaf is not None
    inner=extract_child(FIX, for_task=False)
    withctx = bool(inner.frames[0].contexts)
    return (withctx, recurse)
@unwrap_stackitem.register(Item)
def _(it):
    log=OBS.log
    log.append(('obs',)+observe())
    for act in it.script:
        if act[0]=='nest':
            _,wc,rc,sub=act
            extract(Item(sub), with_contexts=wc, recurse_child_tasks=rc)
            log.append(('after_nest',)+observe())
        elif act[0]=='raise':
            raise ValueError('boom')
        elif act[0]=='outermost_fail':
            try: extract_outermost(42, with_contexts=act[1], recurse_child_tasks=act[2])
            except RuntimeError: pass
            log.append(('after_outermost',)+observe())
        elif act[0]=='barrier':
            act[1].wait()
    return None
def run(wc,rc,script):
    OBS.log=[]
    extract(Item(script), with_contexts=wc, recurse_child_tasks=rc)
    try: extract_child(Token(), for_task=False); OBS.log.append('NOT REFUSED')
    except RuntimeError: OBS.log.append('refused')
    return OBS.log
print(run(True,False,[('nest',False,True,[('nest',True,True,[('raise',)]),('outermost_fail',True,False)])]))
# threads
b=threading.Barrier(2); out={}
def th(name,wc,rc):
    out[name]=run(wc,rc,[('barrier',b),('nest',not wc,not rc,[('barrier',b)]),('barrier',b)])
t1=threading.Thread(target=th,args=('A',True,False)); t2=threading.Thread(target=th,args=('B',False,True))
t1.start();t2.start();t1.join();t2.join()
print(out)
