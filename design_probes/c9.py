import sys, types, contextlib, stackscope
@types.coroutine
def sus(v): return (yield v)
class S:
    def __init__(s,n): s.n=n
    def __enter__(s): return s
    def __exit__(s,*e): pass
    def close(s,*e): pass
    def __repr__(s): return f"S{s.n}"
class A:
    def __init__(s,n): s.n=n
    async def __aenter__(s): return s
    async def __aexit__(s,*e): pass
    async def aclose(s,*e): pass
    def __repr__(s): return f"A{s.n}"
def fn(*e): pass
async def afn(*e): pass
@contextlib.contextmanager
def gcm(n):
    with S(100+n) as inner:
        yield
@contextlib.asynccontextmanager
async def agcm(n):
    async with A(200+n) as inner:
        yield
async def f():
    async with contextlib.AsyncExitStack() as st:
        st.enter_context(S(1))
        st.push(S(2))
        st.push(fn)
        st.push(S(3).close)
        st.callback(fn, 1, k=2)
        await st.enter_async_context(A(4))
        st.push_async_exit(A(5))
        st.push_async_exit(afn)
        st.push_async_exit(A(6).aclose)
        st.push_async_callback(afn, 7)
        st.enter_context(gcm(8))
        await st.enter_async_context(agcm(9))
        await sus(1)
co=f(); co.send(None)
s=stackscope.extract(co)
c=s.frames[0].contexts[0]
for ch in c.children:
    print(repr(ch.obj)[:50], ch.is_async, ch.varname, '|', ch.description, '| inner:', [fr.funcname for fr in ch.inner_stack.frames] if ch.inner_stack else None)
print(s.error)
