import sys, types, random, contextlib, warnings, stackscope
from stackscope import Context, Stack
rng=random.Random(int(sys.argv[1]) if len(sys.argv)>1 else 0)
@types.coroutine
def sus(v): return (yield v)
class S:
    def __init__(s,falsy=False): s.falsy=falsy
    def __enter__(s): return s
    def __exit__(s,*e): pass
    def __len__(s): return 0 if s.falsy else 1
    def close(s,*e): pass
class A:
    async def __aenter__(s): return s
    async def __aexit__(s,*e): pass
    async def aclose(s,*e): pass
def fn(*e,**k): pass
async def afn(*e,**k): pass
@contextlib.contextmanager
def g1(a):
    with a: yield
@contextlib.contextmanager
def g2(a,b):
    with a:
        with b: yield
def helper(a):
    with a: yield
@contextlib.contextmanager
def gyf(a):
    yield from helper(a)
@contextlib.asynccontextmanager
async def ag1(a):
    if hasattr(a,'__aenter__'):
        async with a: yield
    else:
        with a: yield
# spec node: ('S',falsy) ('A',) ('g1',n) ('g2',n,n) ('gyf',n) ('ag1',n) ('ES',[regs]) ('AES',[regs])  ; reg: (method, node or None)
def gen(depth, want_async):
    r=rng.random()
    if depth>=3 or r<0.3:
        if want_async and rng.random()<0.5: return ('A',)
        return ('S', rng.random()<0.3)
    k=rng.choice(['g1','g2','gyf','ES']+(['ag1','AES'] if want_async else []))
    if k=='g1': return ('g1',gen(depth+1,False))
    if k=='g2': return ('g2',gen(depth+1,False),gen(depth+1,False))
    if k=='gyf': return ('gyf',gen(depth+1,False))
    if k=='ag1': return ('ag1',gen(depth+1,True))
    regs=[]
    for _ in range(rng.randint(0,4)):
        m=rng.choice(['enter_context','push_cm','push_fn','push_meth','callback']+(['enter_async_context','push_async_exit_cm','push_async_exit_fn','push_async_exit_meth','push_async_callback'] if k=='AES' else []))
        sub=None
        if m in ('enter_context','push_cm'): sub=gen(depth+1,False)
        if m in ('enter_async_context','push_async_exit_cm'):
            sub=gen(depth+1,True)
            # must be an async manager
            if sub[0] not in ('A','ag1','AES'): sub=('A',)
        regs.append((m,sub))
    return (k,regs)
def is_async_node(n): return n[0] in ('A','ag1','AES')
async def build(n):
    """returns (manager_object, expected) ; expected describes the subtree"""
    k=n[0]
    if k=='S': m=S(n[1]); return m,('plain',m,False)
    if k=='A': m=A(); return m,('plain',m,True)
    if k in('g1','gyf','ag1'):
        a,ea=await build(n[1]); m={'g1':g1,'gyf':gyf,'ag1':ag1}[k](a)
        return m,('gcm',m,k=='ag1',[ea], 2 if k=='gyf' else 1)
    if k=='g2':
        a,ea=await build(n[1]); b,eb=await build(n[2]); m=g2(a,b); return m,('gcm',m,False,[ea,eb],1)
    st=contextlib.ExitStack() if k=='ES' else contextlib.AsyncExitStack()
    exp=[]
    for meth,sub in n[1]:
        if meth=='enter_context': m,e=await build(sub); st.enter_context(m); exp.append(('enter_context',m,False,e))
        elif meth=='push_cm':
            m,e=await build(sub); m.__enter__(); st.push(m); exp.append(('enter_context',m,False,e))
        elif meth=='push_fn': st.push(fn); exp.append(('push',fn,False,None))
        elif meth=='push_meth': o=S(); st.push(o.close); exp.append(('push',o,False,None))
        elif meth=='callback': st.callback(fn,1,k=2); exp.append(('callback',fn,False,None))
        elif meth=='enter_async_context': m,e=await build(sub); await st.enter_async_context(m); exp.append(('enter_async_context',m,True,e))
        elif meth=='push_async_exit_cm': m,e=await build(sub); await m.__aenter__(); st.push_async_exit(m); exp.append(('enter_async_context',m,True,e))
        elif meth=='push_async_exit_fn': st.push_async_exit(afn); exp.append(('push_async_exit',afn,True,None))
        elif meth=='push_async_exit_meth': o=A(); st.push_async_exit(o.aclose); exp.append(('push_async_exit',o,True,None))
        elif meth=='push_async_callback': st.push_async_callback(afn,1); exp.append(('push_async_callback',afn,True,None))
    return st,('stack',st,k=='AES',exp)
problems=[]
def check(ctx, exp, path):
    kind=exp[0]
    if ctx.obj is not exp[1]: problems.append((path,'obj',type(ctx.obj).__name__))
    if ctx.is_async!=exp[2]: problems.append((path,'is_async'))
    if kind=='plain':
        if ctx.inner_stack is not None or ctx.children: problems.append((path,'plain has substructure'))
    elif kind=='gcm':
        st=ctx.inner_stack
        if st is None or st.error: problems.append((path,'no inner stack',st and st.error)); return
        genobj=exp[1].gen
        fr=getattr(genobj,'gi_frame',None) or getattr(genobj,'ag_frame',None)
        if len(st.frames)!=exp[4] or st.frames[0].pyframe is not fr: problems.append((path,'inner frames',[f.funcname for f in st.frames])); return
        inner_ctxs=st.frames[-1].contexts
        if len(inner_ctxs)!=len(exp[3]): problems.append((path,'inner ctx count',len(inner_ctxs),len(exp[3]))); return
        for i,(c,e) in enumerate(zip(inner_ctxs,exp[3])): check(c,e,path+(i,))
    else:
        kids=ctx.children
        if len(kids)!=len(exp[3]): problems.append((path,'children count',len(kids),len(exp[3]))); return
        for i,(c,(meth,obj,asy,sub)) in enumerate(zip(kids,exp[3])):
            if not isinstance(c,Context): problems.append((path,'child not context')); continue
            o=c.obj
            ok = o is obj or getattr(o,'__wrapped__',None) is obj
            if not ok: problems.append((path+(i,),'child obj',meth,type(o).__name__))
            if c.is_async!=asy: problems.append((path+(i,),'child async',meth))
            if ('.'+meth+'(') not in (c.description or ''): problems.append((path+(i,),'desc',meth,c.description))
            if sub is not None: check(c, sub, path+(i,))
async def main(node):
    m,exp=await build(node)
    if is_async_node(node):
        async with m as x:
            await sus(exp)
    else:
        with m as x:
            await sus(exp)
n=0
for case in range(int(sys.argv[2]) if len(sys.argv)>2 else 300):
    node=gen(0,True)
    co=main(node)
    with warnings.catch_warnings(record=True) as w:
        warnings.simplefilter('always')
        exp=co.send(None)
        st=stackscope.extract(co)
    n+=1
    before=len(problems)
    if st.error or w: problems.append(((),'error/warn',st.error,[str(x.message)[:60] for x in w]))
    ctxs=st.frames[0].contexts
    if len(ctxs)!=1: problems.append(((),'top ctx count',len(ctxs)))
    else: check(ctxs[0],exp,())
    if len(problems)>before and before<6: print(node,'\n   ',problems[before:before+3])
    try: co.send(None)
    except StopIteration: pass
    except TypeError as e: pass
print('cases',n,'problems',len(problems))
