import sys, types, warnings, stackscope
from stackscope import lowlevel as ll
@types.coroutine
def ay(v): return (yield v)
class ACM:
    def __init__(s, n): s.n=n
    async def __aenter__(self): return self
    async def __aexit__(self, *exc):
        await ay(('exit', self.n))
SRC = {
'tryexc': '''
async def f(c):
    async with ACM(1) as a:
        async with ACM(2) as b:
            try:
                if c: raise KeyError
            except KeyError:
                pass
''',
'ifret': '''
async def f(c):
    async with ACM(1) as a:
        async with ACM(2) as b:
            if c:
                return 5
''',
'for_try': '''
async def f(c):
    for i in range(2):
        async with ACM(1) as a:
            with SCM() as s:
                try:
                    if c: raise KeyError
                except KeyError:
                    continue
''',
}
class SCM:
    def __enter__(s): return s
    def __exit__(s,*e): pass
for name, src in SRC.items():
    for c in (False, True):
        ns = dict(ACM=ACM, ay=ay, SCM=SCM)
        exec(src, ns)
        co = ns['f'](c)
        with warnings.catch_warnings(record=True) as w:
            warnings.simplefilter("always")
            try:
                while True:
                    v = co.send(None)
                    ctxs = ll.contexts_active_in_frame(co.cr_frame, co, co.cr_await.cr_frame if hasattr(co.cr_await,'cr_frame') else None)
                    print(name, c, v, [(getattr(x.obj,'n',x.obj), x.is_exiting, x.varname) for x in ctxs], [str(x.message)[:90] for x in w])
                    del w[:]
            except StopIteration: pass
