import sys, stackscope, contextlib, trio
from stackscope import Stack, Frame, Context
@contextlib.contextmanager
def inner():
    st = contextlib.ExitStack()
    with st:
        st.enter_context(contextlib.nullcontext())
        st.callback(print, 1)
        yield
async def child(): 
    with inner():
        await trio.sleep_forever()
async def main():
    async with trio.open_nursery() as n:
        n.start_soon(child); n.start_soon(trio.sleep_forever)
        await trio.testing.wait_all_tasks_blocked()
        s = stackscope.extract(trio.lowlevel.current_root_task(), recurse_child_tasks=True)
        print(s); print("".join(s.format(ascii_only=True)))
        s2 = stackscope.extract(trio.lowlevel.current_root_task())
        print(s2)
        n.cancel_scope.cancel()
import trio.testing
trio.run(main)
