import sys, trio, trio.testing, stackscope, warnings, random
from stackscope import Stack, Context
rng=random.Random(int(sys.argv[1]) if len(sys.argv)>1 else 0)
def gen_tree(depth):
    # task spec: list of nurseries (nested), each with children specs; 'block' in body or in aexit; body ending kind
    n_nurs = rng.randint(0,2) if depth<3 else 0
    return dict(nurs=[dict(children=[gen_tree(depth+1) for _ in range(rng.randint(0,2))], ending=rng.choice(['plain','tryexc','tryfin','condret'])) for _ in range(n_nurs)], block=rng.choice(['body','aexit']))
async def run_task(spec, level=0):
    await run_nurs(spec, 0)
async def run_nurs(spec, i):
    if i>=len(spec['nurs']):
        if spec['block']=='body' or not spec['nurs']:
            await trio.sleep_forever()
        return
    ns=spec['nurs'][i]
    e=ns['ending']
    async with trio.open_nursery() as nursery:
        for ch in ns['children']:
            nursery.start_soon(run_task, ch)
        if not ns['children'] and spec['block']=='aexit':
            nursery.start_soon(trio.sleep_forever)
        if e=='plain':
            await run_nurs(spec,i+1)
        elif e=='tryexc':
            try:
                await run_nurs(spec,i+1)
            except KeyError:
                pass
        elif e=='tryfin':
            try:
                await run_nurs(spec,i+1)
            finally:
                pass
        else:
            await run_nurs(spec,i+1)
            if len(ns['children'])>=0:
                return
def nursery_contexts(stack):
    out=[]
    def walk_stack(st):
        for fr in st.frames:
            for c in fr.contexts: walk_ctx(c)
    def walk_ctx(c):
        if isinstance(c.obj, trio.Nursery): out.append(c)
        if c.inner_stack: walk_stack(c.inner_stack)
        for ch in c.children:
            if isinstance(ch, Context): walk_ctx(ch)
    walk_stack(stack); return out
bad=[]
def compare(task, stack, path):
    if stack.error: bad.append((path,'error',stack.error))
    ctxs=nursery_contexts(stack)
    if [c.obj for c in ctxs]!=list(task.child_nurseries): bad.append((path,'nurseries',len(ctxs),len(task.child_nurseries)))
    for c,n in zip(ctxs, task.child_nurseries):
        roots={id(ch.root):ch for ch in c.children}
        if set(roots)!={id(t) for t in n.child_tasks}: bad.append((path,'children'))
        for t in n.child_tasks:
            if id(t) in roots: compare(t, roots[id(t)], path+(t.name,))
async def main(spec):
    async with trio.open_nursery() as top:
        top.start_soon(run_task, spec, name='ROOT')
        await trio.testing.wait_all_tasks_blocked()
        root=[t for t in top.child_tasks][0]
        with warnings.catch_warnings(record=True) as w:
            warnings.simplefilter('always')
            st=stackscope.extract(root, recurse_child_tasks=True)
        if w: bad.append(('warn',str(w[0].message)[:100]))
        compare(root, st, ('ROOT',))
        top.cancel_scope.cancel()
ntasks=0
for i in range(60):
    spec=gen_tree(0)
    trio.run(main, spec)
print('bad',len(bad), bad[:5])
