"""Prototype: reduce real functions to control-flow skeletons and check contexts dynamically."""
import ast, sys, os, random, types, warnings, collections, sysconfig, zlib, traceback
import stackscope
from stackscope import lowlevel as ll

class Skip(Exception): pass
RUNNING=bool(int(__import__("os").environ.get("RUNNING","0")))
ASYNCIFY=bool(int(__import__("os").environ.get("ASYNCIFY","0")))

class Skel(ast.NodeTransformer):
    def __init__(self): self.k=0; self.nwith=0
    def nk(self): self.k+=1; return self.k
    def call(self, name, *args): return ast.Call(ast.Name(name, ast.Load()), [ast.Constant(a) for a in args], [])
    def sus(self):
        if RUNNING: return ast.Expr(self.call('P', self.nk()))
        return ast.Expr(ast.Await(self.call('sus', self.nk())))
    def block(self, stmts):
        out=[]; last_simple=False
        for s in stmts:
            r=self.stmt(s)
            if r is None:
                if not last_simple: out.append(self.sus()); last_simple=True
                continue
            last_simple=False
            out.extend(r if isinstance(r,list) else [r])
        if not out: out=[ast.Pass()]
        return out
    def exc(self, node):
        name = ast.unparse(node) if node is not None else ''
        return 'E1' if zlib.crc32(name.encode())%2==0 else 'E2'
    def stmt(self, s):
        if isinstance(s,(ast.With,ast.AsyncWith)):
            items=[]
            for it in s.items:
                self.nwith+=1
                k=self.nk()
                tgt = ast.Name(f'v{k}', ast.Store()) if it.optional_vars is not None else None
                isasync = isinstance(s,ast.AsyncWith) or ASYNCIFY
                items.append(ast.withitem(self.call('A' if isasync else 'S', k), tgt))
            cls = ast.AsyncWith if (isinstance(s,ast.AsyncWith) or ASYNCIFY) else ast.With
            return cls(items, self.block(s.body))
        if isinstance(s, ast.If):
            return ast.If(self.call('D'), self.block(s.body), self.block(s.orelse) if s.orelse else [])
        if isinstance(s,(ast.For,ast.AsyncFor)):
            return ast.For(ast.Name('_i',ast.Store()), self.call('R'), self.block(s.body), self.block(s.orelse) if s.orelse else [])
        if isinstance(s, ast.While):
            const_true = isinstance(s.test, ast.Constant) and bool(s.test.value)
            guard = ast.If(self.call('T'), [ast.Raise(self.call('LoopLimit'), None)], [])
            body=[guard]+self.block(s.body)
            return ast.While(ast.Constant(True) if const_true else self.call('D'), body, self.block(s.orelse) if s.orelse else [])
        if isinstance(s, ast.Try):
            hs=[]
            for h in s.handlers:
                hs.append(ast.ExceptHandler(ast.Name(self.exc(h.type),ast.Load()) if h.type is not None else None, h.name, self.block(h.body)))
            return ast.Try(self.block(s.body), hs, self.block(s.orelse) if s.orelse else [], self.block(s.finalbody) if s.finalbody else [])
        if isinstance(s, ast.Return):
            if s.value is None: return ast.Return(None)
            if isinstance(s.value, ast.Constant) and isinstance(s.value.value,(int,str,bool,type(None))): return ast.Return(ast.Constant(s.value.value))
            return ast.Return(self.call('V'))
        if isinstance(s, ast.Raise):
            if s.exc is None: return ast.Raise(None,None)
            return ast.Raise(self.call(self.exc(s.exc)), None)
        if isinstance(s,(ast.Break,ast.Continue,ast.Pass)): return type(s)()
        if isinstance(s, ast.Assert):
            return ast.If(self.call('D'), [ast.Raise(self.call('E1'),None)], [])
        if hasattr(ast,'Match') and isinstance(s, ast.Match): raise Skip('match')
        if hasattr(ast,'TryStar') and isinstance(s, ast.TryStar): raise Skip('trystar')
        return None   # simple statement -> suspension point

def has_direct_with(fn):
    def visit(n):
        for ch in ast.iter_child_nodes(n):
            if isinstance(ch,(ast.FunctionDef,ast.AsyncFunctionDef,ast.Lambda,ast.ClassDef)): continue
            if isinstance(ch,(ast.With,ast.AsyncWith)): return True
            if visit(ch): return True
        return False
    return visit(fn)

def skeletons(tree):
    for n in ast.walk(tree):
        if isinstance(n,(ast.FunctionDef,ast.AsyncFunctionDef)) and has_direct_with(n):
            sk=Skel()
            try: body=sk.block(n.body)
            except Skip: continue
            f=ast.AsyncFunctionDef('f', ast.arguments([],[],None,[],[],None,[]), body, [], None)
            if sys.version_info>=(3,12): f.type_params=[]
            m=ast.Module([f],[]); ast.fix_missing_locations(m)
            try: src=ast.unparse(m)
            except Exception: continue
            yield n.name, n.lineno, src, sk.nwith

# ---------------- runtime
@types.coroutine
def _trap(v): return (yield v)
class E1(Exception): pass
class E2(Exception): pass
class LoopLimit(Exception): pass
class Run:
    def __init__(self, rng): self.rng=rng; self.log=[]; self.loops=0; self.steps=0; self.closing=False
    def D(self): return self.rng.random()<0.5
    def R(self): return range(self.rng.choice([0,1,1,2]))
    def T(self):
        self.loops+=1; return self.loops>3
    def V(self): return object()
    async def sus(self,k):
        self.steps+=1
        if self.steps>60: raise LoopLimit()
        if self.closing: raise LoopLimit()
        await _trap(('sus',k))
        r=self.rng.random()
        if r<0.12: raise E1()
        if r<0.2: raise E2()
    def P(self, k):
        self.steps+=1
        if self.steps>60: raise LoopLimit()
        self.probe(('P',k))
        r=self.rng.random()
        if r<0.12: raise E1()
        if r<0.2: raise E2()
    def probe(self, tag):
        fr=self.frame
        with warnings.catch_warnings(record=True) as w:
            warnings.simplefilter('always')
            st=stackscope.extract_since(fr)
        got=[(c.obj,c.is_async,c.is_exiting) for c in st.frames[0].contexts]
        exp=self.truth()
        self.stats['obs']+=1
        if exp: self.stats['obs_nontrivial']+=1
        if exp and exp[-1][2]: self.stats['obs_exiting']+=1
        if got!=exp or w or st.error:
            self.stats['BAD']+=1
            self.fails.append((self.label, tag, [(getattr(g[0],'k',g[0]),g[1],g[2]) for g in got], [(g[0].k,g[1],g[2]) for g in exp], [str(x.message)[:80] for x in w], st.error))
    def truth(self):
        ent=[]; exiting=None
        for ev,m in self.log:
            if ev=='ee': ent.append(m)
            elif ev=='xs': exiting=m
            elif ev=='xe': ent.remove(m); exiting=None
        return [(m, m.is_async, m is exiting) for m in ent]
    def ns(self):
        run=self
        class S:
            is_async=False
            def __init__(s,k): s.k=k; s.sw=run.rng.random()<0.15
            def __enter__(s):
                run.log.append(('es',s))
                if RUNNING: run.probe(('enter',s.k))
                run.log.append(('ee',s)); return s
            def __exit__(s,*e):
                run.log.append(('xs',s))
                try:
                    if RUNNING: run.probe(('exit',s.k,e[0] is not None))
                finally: run.log.append(('xe',s))
                return s.sw
        class A:
            is_async=True
            def __init__(s,k): s.k=k; s.sw=run.rng.random()<0.15
            async def __aenter__(s):
                run.log.append(('es',s))
                if RUNNING: run.probe(('aenter',s.k))
                elif not run.closing: await _trap(('enter',s.k))
                run.log.append(('ee',s)); return s
            async def __aexit__(s,*e):
                run.log.append(('xs',s))
                try:
                    if RUNNING: run.probe(('aexit',s.k,e[0] is not None))
                    elif not run.closing: await _trap(('exit',s.k))
                finally: run.log.append(('xe',s))
                return s.sw
        return dict(S=S,A=A,P=self.P,D=self.D,R=self.R,T=self.T,V=self.V,sus=self.sus,E1=E1,E2=E2,LoopLimit=LoopLimit)

def check_source(src, seeds, stats, fails, label):
    try: code=compile(src,'<skel>','exec')
    except SyntaxError as e:
        stats['syntaxerror']+=1; return
    for seed in seeds:
        run=Run(random.Random(seed)); ns=run.ns(); exec(code,ns)
        co=ns['f']()
        stats['runs']+=1
        if RUNNING:
            run.stats=stats; run.fails=fails; run.label=label; run.frame=co.cr_frame
            try: co.send(None)
            except StopIteration: stats['end_return']+=1
            except (E1,E2): stats['end_exc']+=1
            except LoopLimit: stats['end_limit']+=1
            except RuntimeError: stats['end_runtimeerror']+=1
            continue
        try:
            while True:
                with warnings.catch_warnings(record=True) as w:
                    warnings.simplefilter('always')
                    v=co.send(None)
                    ctxs=ll.contexts_active_in_frame(co.cr_frame, co, getattr(co.cr_await,'cr_frame',None))
                got=[(c.obj,c.is_async,c.is_exiting) for c in ctxs]
                exp=run.truth()
                stats['obs']+=1
                if exp: stats['obs_nontrivial']+=1
                if exp and exp[-1][2]: stats['obs_exiting']+=1
                if got!=exp or w:
                    stats['BAD']+=1
                    fails.append((label, seed, v, [(getattr(g[0],'k',g[0]),g[1],g[2]) for g in got], [(g[0].k,g[1],g[2]) for g in exp], [str(x.message)[:80] for x in w]))
                    break
        except StopIteration: stats['end_return']+=1
        except (E1,E2): stats['end_exc']+=1
        except LoopLimit: stats['end_limit']+=1
        except RuntimeError as e:
            stats['end_runtimeerror']+=1   # e.g. bare raise outside handler
        finally:
            run.closing=True
            try: co.close()
            except BaseException: pass

if __name__=='__main__':
    root = sysconfig.get_paths()['stdlib']
    limit=int(sys.argv[1]) if len(sys.argv)>1 else 500
    stats=collections.Counter(); fails=[]
    files=[]
    for dp,dn,fn in os.walk(root):
        if 'site-packages' in dp: continue
        for f in fn:
            if f.endswith('.py'): files.append(os.path.join(dp,f))
    random.Random(int(sys.argv[2]) if len(sys.argv)>2 else 0).shuffle(files)
    nfun=0
    for p in files:
        if nfun>=limit: break
        try: tree=ast.parse(open(p,'rb').read())
        except Exception: continue
        for name,ln,src,nwith in skeletons(tree):
            nfun+=1
            check_source(src, range(6), stats, fails, (p.replace(root,''),name,ln))
            if nfun>=limit: break
    print(sys.version_info[:2], 'functions',nfun, dict(stats))
    seen=set()
    for f in fails:
        if f[0] in seen: continue
        seen.add(f[0]); print(f)
        if len(seen)>12: break
