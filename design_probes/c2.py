import sys, types, warnings, stackscope
from stackscope import lowlevel as ll
LOG=[]; OUT=[None]; stats={'obs':0,'bad':0,'inexit':0,'inenter':0}
def truth():
    ent=[]; exiting=None
    for ev,m in LOG:
        if ev=='ee': ent.append(m)
        elif ev=='xs': exiting=m
        elif ev=='xe': ent.remove(m); exiting=None
    return [(m, m.is_async, m is exiting) for m in ent]
def P(tag):
    fr = OUT[0]
    with warnings.catch_warnings(record=True) as w:
        warnings.simplefilter('always')
        st = stackscope.extract_since(fr)
    got=[(x.obj,x.is_async,x.is_exiting) for x in st.frames[0].contexts]
    exp=truth(); stats['obs']+=1
    if exp and exp[-1][2]: stats['inexit']+=1
    if got!=exp or w or st.error:
        stats['bad']+=1
        if stats['bad']<12: print(sys.version_info[:2],'at',tag,'GOT',[(getattr(g[0],'n',g[0]),g[1],g[2]) for g in got],'EXP',[(g[0].n,g[1],g[2]) for g in exp], [str(x.message)[:70] for x in w], st.error)
class A:
    is_async=True
    def __init__(s,n,swallow=False): s.n=n; s.sw=swallow
    async def __aenter__(s):
        LOG.append(('es',s)); P(('in_enter',s.n)); LOG.append(('ee',s)); return s
    async def __aexit__(s,*e):
        LOG.append(('xs',s))
        try: P(('in_exit',s.n, e[0] is not None))
        finally: LOG.append(('xe',s))
        return s.sw
class S:
    is_async=False
    def __init__(s,n,swallow=False): s.n=n; s.sw=swallow
    def __enter__(s): LOG.append(('es',s)); P(('in_enter',s.n)); LOG.append(('ee',s)); return s
    def __exit__(s,*e):
        LOG.append(('xs',s))
        try: P(('in_exit',s.n, e[0] is not None))
        finally: LOG.append(('xe',s))
        return s.sw
BODY='''
    OUT[0]=sys._getframe(0)
    for i in range(2):
        {aw}with A(1) as a, A(2, True) as b:
            with S(3) as s, S(5):
                try:
                    P('body')
                    if c == 1: raise KeyError
                    if c == 2: continue
                    if c == 3: return {ret}
                    if c == 4: break
                    if c == 5: return 9
                finally:
                    {aw}with A(4):
                        P('fin')
            P('after s')
            if c == 6:
                return 5
    P('end')
'''
def run(kind,c):
    del LOG[:]
    if kind=='coro':
        src='async def f(c):'+BODY.format(aw='async ',ret='c*7')
    elif kind=='agen':
        src='async def f(c):'+BODY.format(aw='async ',ret='').replace('return 9','return').replace('return 5','return')+'\n    yield 1\n'
    elif kind=='gen':
        src='def f(c):'+BODY.replace('A(','S(').format(aw='',ret='c*7')+'\n    yield 1\n'
    else:
        src='def f(c):'+BODY.replace('A(','S(').format(aw='',ret='c*7')
    ns=dict(A=A,S=S,P=P,OUT=OUT,sys=sys); exec(src,ns)
    x=ns['f'](c)
    try:
        if kind=='coro': x.send(None)
        elif kind=='agen': x.asend(None).send(None)
        elif kind=='gen': next(x)
    except (StopIteration, StopAsyncIteration, KeyError): pass
for kind in ('coro','agen','gen','sync'):
    for c in range(7):
        try: run(kind,c)
        except KeyError: pass
print(sys.version_info[:2], stats)
