import sys, types, warnings, stackscope
from stackscope import lowlevel as ll
warnings.simplefilter("error")
res = {}
class ACM:
    async def __aenter__(self):
        res['enter'] = stackscope.extract_since(OUT[0])
        return self
    async def __aexit__(self, *exc):
        res['exit'] = stackscope.extract_since(OUT[0])
class CM:
    def __enter__(self):
        res['senter'] = stackscope.extract_since(OUT[0]); return self
    def __exit__(self, *exc):
        res['sexit'] = stackscope.extract_since(OUT[0])
OUT=[None]
async def f():
    OUT[0] = sys._getframe(0)
    with CM() as c:
        async with ACM() as a:
            res['body'] = stackscope.extract_since(OUT[0])
co = f()
try: co.send(None)
except StopIteration: pass
for k,v in res.items():
    print(k, [(type(c.obj).__name__, c.is_async, c.is_exiting, c.varname, c.start_line) for c in v.frames[0].contexts], v.error)
