import sys, types, random, warnings, collections, stackscope
from stackscope import _glue
rng=random.Random(int(sys.argv[1]) if len(sys.argv)>1 else 0)
stackscope.extract(0)
LOG=[]   # (kind, name, modid)
dev=collections.Counter(); shown=0
names=[f"vvmod{i}" for i in range(5)]
def mk(name, flavor):
    m=types.ModuleType(name)
    if flavor in ('module','both','raising_module'):
        def g(m=m, flavor=flavor):
            LOG.append(('module',name,id(m)))
            if flavor=='raising_module': raise ValueError('boom')
        m._stackscope_install_glue_=g
    return m
for hist in range(400):
    # reset
    for n in names:
        sys.modules.pop(n,None); _glue.builtin_glue_pending.pop(n,None)
    stackscope.extract(0)
    # sys.modules length now cached.
    del LOG[:]
    present={}; expect_counts=collections.Counter(); ops=[]
    pending_b={}   # name->flavor builtin
    modglue={}     # modid -> still has module glue
    ok=True
    for step in range(rng.randint(2,8)):
        op=rng.choice(['add','add','remove','extract','extract'])
        if op=='add':
            n=rng.choice(names)
            if n in present: continue
            flavor=rng.choice(['module','builtin','both','neither','raising_module','raising_builtin'])
            m=mk(n,flavor); sys.modules[n]=m; present[n]=m
            modglue[id(m)] = flavor in ('module','both','raising_module')
            if flavor in ('builtin','both','raising_builtin') and n not in _glue.builtin_glue_pending and n not in pending_b:
                def b(n=n, flavor=flavor):
                    LOG.append(('builtin',n,None))
                    if flavor=='raising_builtin': raise ValueError('boom')
                _glue.builtin_glue_pending[n]=b; pending_b[n]=flavor
            ops.append(('add',n,flavor))
        elif op=='remove':
            if not present: continue
            n=rng.choice(list(present)); del sys.modules[n]; del present[n]; ops.append(('remove',n))
        else:
            before=len(LOG)
            len_now=len(sys.modules); cached=_glue.add_glue_as_needed.__kwdefaults__['_sys_modules_len_cache'][0]
            with warnings.catch_warnings(record=True) as w:
                warnings.simplefilter('always')
                stackscope.extract(0)
            ops.append(('extract',))
            # expected: every present module handled
            exp=[]
            for n,m in present.items():
                if modglue.get(id(m)): exp.append(('module',n,id(m))); modglue[id(m)]=False; pending_b.pop(n,None)
                elif n in pending_b: exp.append(('builtin',n,None)); pending_b.pop(n)
            got=LOG[before:]
            if sorted(map(str,got))!=sorted(map(str,exp)):
                key='F4-like(len equal)' if len_now==cached else 'OTHER'
                dev[key]+=1
                if key=='OTHER' and shown<5: shown+=1; print(ops,'GOT',got,'EXP',exp)
                # resync model with reality: whatever wasn't run remains
                for e in exp:
                    if e not in got:
                        if e[0]=='module': modglue[e[2]]=True
                        else: pending_b[e[1]]='x'
                break
    # counts never >1
    c=collections.Counter(LOG)
    if any(v>1 for v in c.values()): dev['twice']+=1
print(dict(dev))
