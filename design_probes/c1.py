import sys, types, warnings, stackscope
from stackscope import lowlevel as ll
@types.coroutine
def sus(v): return (yield v)
LOG=[]
class A:
    def __init__(s,n,swallow=False): s.n=n; s.sw=swallow
    async def __aenter__(s):
        LOG.append(('es',s)); await sus(('in_enter',s.n)); LOG.append(('ee',s)); return s
    async def __aexit__(s,*e):
        LOG.append(('xs',s))
        try: await sus(('in_exit',s.n))
        finally: LOG.append(('xe',s))
        return s.sw
class S:
    def __init__(s,n,swallow=False): s.n=n; s.sw=swallow
    def __enter__(s): LOG.append(('es',s)); LOG.append(('ee',s)); return s
    def __exit__(s,*e): LOG.append(('xs',s)); LOG.append(('xe',s)); return s.sw
def truth():
    ent=[]; exiting=None
    for ev,m in LOG:
        if ev=='ee': ent.append(m)
        elif ev=='xs': exiting=m
        elif ev=='xe':
            ent.remove(m); exiting=None
    return [(m, isinstance(m,A), m is exiting) for m in ent]
SRC='''
async def f(c):
    for i in range(2):
        async with A(1) as a, A(2, True) as b:
            with S(3) as s:
                try:
                    await sus('body')
                    if c == 1: raise KeyError
                    if c == 2: continue
                    if c == 3: return 7
                    if c == 4: break
                finally:
                    async with A(4):
                        await sus('fin')
            await sus('after s')
    await sus('end')
'''
ns=dict(A=A,S=S,sus=sus); exec(SRC,ns)
bad=0;obs=0
for c in range(5):
    del LOG[:]
    co=ns['f'](c)
    try:
        with warnings.catch_warnings(record=True) as w:
            warnings.simplefilter('always')
            while True:
                v=co.send(None)
                st=stackscope.extract(co)
                got=[(x.obj,x.is_async,x.is_exiting) for x in st.frames[0].contexts]
                exp=truth(); obs+=1
                if got!=exp or w or st.error:
                    bad+=1; print('c',c,'at',v,'GOT',[(g[0].n if g[0] else None,g[1],g[2]) for g in got],'EXP',[(g[0].n,g[1],g[2]) for g in exp], [str(x.message)[:60] for x in w], st.error); del w[:]
    except StopIteration: pass
    except KeyError: pass
print(sys.version_info[:2],'obs',obs,'bad',bad)
