import sys, random, collections, stackscope
from stackscope import elaborate_frame, unwrap_stackitem, extract, PRUNE, yields_frames, Frame
NF=7
def mk(name):
    ns={}; exec(f"def {name}():\n    yield\n", ns); g=ns[name](); next(g); return g
GENS=[mk(f"F{i}") for i in range(NF)]
FR=[g.gi_frame for g in GENS]
NAME={id(f):f"F{i}" for i,f in enumerate(FR)}
class W:   # wrapper item
    def __init__(s, style, kids): s.style=style; s.kids=kids
    def __repr__(s): return f"W{s.style}({','.join(map(rep,s.kids))})"
class Leaf:
    def __init__(s,n): s.n=n
    def __repr__(s): return f"L{s.n}"
def rep(x): return NAME.get(id(x)) or repr(x)
@unwrap_stackitem.register(W)
def _(w):
    if w.style=='tuple': return tuple(w.kids)
    if w.style=='list': return list(w.kids)
    if w.style=='single': return w.kids[0] if w.kids else ()
    if w.style=='iter': return it(w.kids)
@yields_frames
def it(kids):
    yield from kids
ACT={}   # frame name -> ('none'|'prune'|'replace'|'insert', items)
def reg(i):
    @elaborate_frame.register(GENS[i].gi_code)
    def _(frame, nxt):
        a=ACT.get(f"F{i}")
        if not a: return None
        kind,items=a
        if kind=='prune': return PRUNE
        if kind=='replace': return items[0] if len(items)==1 and CASE['single'] else tuple(items)
        if kind=='insert': return tuple(items)+(nxt,)
for i in range(NF): reg(i)
CASE={'single':False}
# ---------- reference model A
def expand(item, depth, out):
    if id(item) in NAME: out.append(['F',item,depth]); return
    if isinstance(item, W):
        kids = item.kids[:1] if item.style=='single' else item.kids
        for k in kids: expand(k, depth+1, out)
        return
    out.append(['L',item,depth])
def model(root):
    L=[]; expand(root,0,L)
    frames=[]; i=0
    while i < len(L):
        kind,el,d=L[i]
        if kind!='F':
            rest=[e[1] for e in L[i:]]
            return frames, (rest if len(rest)>1 else rest[0]), False
        frames.append(el)
        nxt = L[i+1] if i+1<len(L) else None
        a=ACT.get(NAME[id(el)])
        i+=1
        if not a: continue
        k,items=a
        rest=L[i:]
        if k in('prune','replace'):
            items = [] if k=='prune' else items
            while rest and rest[0][2]>=d: rest.pop(0)
            new=[]
            for it_ in items: 
                tmp=[]; expand(it_, d-0, tmp)   # item itself at depth d; expansions deeper
                new+=tmp
            L=L[:i]+new+rest
        else:
            new=[]
            for it_ in items:
                tmp=[]; expand(it_, d, tmp); new+=tmp
            if rest:
                rest[0]=[rest[0][0],rest[0][1],min(d,rest[0][2])]
            L=L[:i]+new+rest
    return frames, None, False
# expansion depth detail: items pushed at `depth`; if item is a frame -> depth d; if W -> kids at d+1 (expand does depth+1 for kids)  OK
rng=random.Random(int(sys.argv[1]) if len(sys.argv)>1 else 0)
def rand_item(depth, pool, allow_leaf=False):
    if depth>=3 or rng.random()<0.45:
        if pool: return pool.pop()
        return None
    kids=[x for x in (rand_item(depth+1,pool) for _ in range(rng.randint(0,3))) if x is not None]
    return W(rng.choice(['tuple','list','iter','single']), kids)
dev=collections.Counter(); n=0; shown=0
for case in range(int(sys.argv[2]) if len(sys.argv)>2 else 3000):
    pool=FR[:]; rng.shuffle(pool)
    root=rand_item(0,pool) or W('tuple',[])
    if not isinstance(root,W): root=W('tuple',[root])
    if rng.random()<0.3: root.kids.append(Leaf(1))
    ACT.clear()
    used=[f for f in FR if f not in pool]
    for f in used:
        r=rng.random()
        if r<0.5: continue
        kind=rng.choice(['prune','replace','insert'])
        items=[x for x in (rand_item(1,pool) for _ in range(rng.randint(1,2))) if x is not None]
        if kind!='prune' and not items: continue
        ACT[NAME[id(f)]]=(kind,items)
    CASE['single']=rng.random()<0.5
    try:
        s=extract(root)
        got=([f.pyframe for f in s.frames], s.leaf, s.error)
    except Exception as e:
        got=('RAISED',type(e).__name__)
    exp=model(root)
    n+=1
    if got[0]=='RAISED':
        dev['raised '+got[1]]+=1; continue
    ok = [id(x) for x in got[0]]==[id(x) for x in exp[0]] and (got[1] is exp[1] or got[1]==exp[1]) and got[2] is None
    if not ok:
        dev['mismatch']+=1
        if shown<6:
            shown+=1; print('ROOT',root,'ACT',{k:(v[0],[rep(x) for x in v[1]]) for k,v in ACT.items()},'\n  GOT',[rep(x) for x in got[0]],got[1],got[2],'\n  EXP',[rep(x) for x in exp[0]],exp[1])
print('cases',n,dict(dev))
