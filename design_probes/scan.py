import sys, os, dis, types, warnings, collections, sysconfig
sys.path.insert(0, sys.argv[1])
import stackscope
from stackscope import lowlevel as ll
op = dis.opmap
class FF:  # fake frame
    def __init__(s, code, lasti): s.f_code=code; s.f_lasti=lasti
def codes(co):
    yield co
    for c in co.co_consts:
        if isinstance(c, types.CodeType): yield from codes(c)
def lines(co):
    m={}
    cur=None
    for ins in dis.get_instructions(co):
        if ins.starts_line is not None: cur=ins.starts_line
        m[ins.offset]=cur
    return m
stats=collections.Counter(); examples=collections.defaultdict(list)
root = sysconfig.get_paths()['stdlib']
for dp, dn, fn in os.walk(root):
    if 'site-packages' in dp or 'test' in dp.split(os.sep) or 'lib2to3' in dp or 'idlelib' in dp: 
        pass
    for f in fn:
        if not f.endswith('.py'): continue
        p=os.path.join(dp,f)
        try:
            src=open(p,'rb').read()
            top=compile(src,p,'exec')
        except Exception: continue
        for co in codes(top):
            code=co.co_code
            if op.get('BEFORE_WITH',-1) not in code[::2] and op.get('BEFORE_ASYNC_WITH',-1) not in code[::2]: continue
            try:
                wb=ll.analyze_with_blocks(co)
            except Exception as e:
                stats['analyze_fail']+=1; examples['analyze_fail'].append((p,co.co_name,repr(e))); continue
            ln=lines(co)
            insns=list(dis.get_instructions(co))
            for idx,ins in enumerate(insns):
                sites=[]
                if ins.opname=='CALL' and ins.arg==2:
                    # check 3 LOAD_CONST None before (skipping PRECALL)
                    j=idx-1
                    if insns[j].opname=='PRECALL': j-=1
                    trio_=insns[j-2:j+1]
                    if len(trio_)==3 and all(t.opname=='LOAD_CONST' and t.argval is None for t in trio_):
                        # is next GET_AWAITABLE 2?
                        nxt=insns[idx+1]
                        if nxt.opname=='GET_AWAITABLE' and nxt.arg==2:
                            # find SEND and YIELD_VALUE
                            k=idx+1
                            while insns[k].opname!='SEND': k+=1
                            sites.append(('async_run', insns[k].offset + (2 if sys.version_info>=(3,12) else 0)))
                            while insns[k].opname!='YIELD_VALUE': k+=1
                            sites.append(('async_susp', insns[k].offset))
                        else:
                            sites.append(('sync', ins.offset))
                for kind,lasti in sites:
                    stats['sites_'+kind]+=1
                    with warnings.catch_warnings(record=True) as w:
                        warnings.simplefilter('always')
                        try:
                            ex=ll.currently_exiting_context(FF(co,lasti))
                        except Exception as e:
                            ex=('EXC',e)
                    key=None
                    if w: key='warn'
                    elif ex is None: key='none'
                    elif isinstance(ex,tuple): key='exc'
                    elif ex.cleanup_offset not in wb: key='not_with_handler'
                    elif wb[ex.cleanup_offset].start_line != ln[ins.offset]: key='line_mismatch'
                    if key:
                        stats['BAD_'+kind+'_'+key]+=1
                        examples[key].append((p.replace(root,''),co.co_name,ln[ins.offset],kind))
for k,v in sorted(stats.items()): print(k,v)
for k,v in examples.items():
    print(k, v[:6])
