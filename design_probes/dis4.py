import dis
src='''
def f(self, threads, support):
    with support.start_threads(threads):
        pass
    return 1
'''
ns={}; exec(src,ns); dis.dis(ns['f'])
