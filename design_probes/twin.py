import os, sys, random, ast, collections, sysconfig, warnings, gc
os.environ['ASYNCIFY']='1'
import skel, stackscope
from stackscope import lowlevel as ll
def drive(code, seed, observe):
    run=skel.Run(random.Random(seed)); ns=run.ns(); exec(code,ns)
    co=ns['f'](); trace=[]
    try:
        while True:
            v=co.send(None); trace.append(('y',v))
            if observe:
                for rep in range(2):
                    s=stackscope.extract(co)
                    s2=stackscope.extract(co, with_contexts=(rep==0))
                    if rep==0 and s!=s2: trace.append(('NONDETERMINISTIC',))
                del s,s2
    except StopIteration as e: trace.append(('ret',repr(e.value) if not isinstance(e.value,object().__class__) else 'obj'))
    except (skel.E1,skel.E2,skel.LoopLimit,RuntimeError) as e: trace.append(('exc',type(e).__name__))
    finally:
        run.closing=True
        try: co.close()
        except BaseException: pass
    return trace, [(ev,m.k) for ev,m in run.log]
root=sysconfig.get_paths()['stdlib']; files=[]
for dp,dn,fn in os.walk(root):
    if 'site-packages' in dp: continue
    files+=[os.path.join(dp,f) for f in fn if f.endswith('.py')]
random.Random(3).shuffle(files)
n=0;bad=0
for p in files:
    if n>=600: break
    try: tree=ast.parse(open(p,'rb').read())
    except Exception: continue
    for name,ln,src,nwith in skel.skeletons(tree):
        n+=1
        try: code=compile(src,'<skel>','exec')
        except SyntaxError: continue
        for seed in range(3):
            with warnings.catch_warnings():
                warnings.simplefilter('ignore')
                a=drive(code,seed,False); b=drive(code,seed,True)
            if a!=b:
                bad+=1
                if bad<5: print(p,name,seed,'\n',a[0][-3:],'\n',b[0][-3:])
        if n>=600: break
print('functions',n,'twin mismatches',bad)
