import dis
src='''
def f(a):
    with a:
        try:
            pass
        except BaseException:
            done = True
            raise
    return 1
'''
ns={}; exec(src,ns); dis.dis(ns['f'])
