import sys, trio, greenback, stackscope
results={}
def sync_lvl(k, depth):
    return greenback.await_(async_lvl(k+1, depth))
async def async_lvl(k, depth):
    if k >= depth:
        return await bottom()
    return sync_lvl(k, depth)
async def bottom():
    task = trio.lowlevel.current_task()
    results['inside'] = stackscope.extract(task.coro)
    def report():
        results['outside'] = stackscope.extract(task.coro)
        trio.lowlevel.reschedule(task)
    trio.lowlevel.current_trio_token().run_sync_soon(report)
    await trio.lowlevel.wait_task_rescheduled(lambda _: trio.lowlevel.Abort.FAILED)
async def main(depth):
    await greenback.ensure_portal()
    await async_lvl(0, depth)
for depth in (0,2,4,6):
    trio.run(main, depth)
    for k in ('inside','outside'):
        s=results[k]
        print(depth, k, [f.funcname for f in s.frames if not f.hide], 'err', s.error)
    print('  hidden:', sorted(set(f.funcname for f in results['outside'].frames if f.hide)))
