import sys, gc, weakref, stackscope, contextlib
class It:
    def __init__(s): s.i=0
    def __iter__(s): return s
    def __next__(s): s.i+=1; return s.i
class M:
    def __enter__(s): return s
    def __exit__(s,*e): pass
IT=It(); MG=M()
def g():
    with MG:            # no 'as': manager only on value stack (via __exit__ bound method)
        for x in IT:    # iterator only on value stack
            yield x
x=g(); next(x)
gc.collect()
base=(sys.getrefcount(IT), sys.getrefcount(MG), sys.getrefcount(x.gi_frame))
for rep in range(3):
    s=stackscope.extract(x)
    mid=(sys.getrefcount(IT), sys.getrefcount(MG))
    s2=stackscope.extract(x)
    assert s==s2
    del s,s2
    gc.collect()
    after=(sys.getrefcount(IT), sys.getrefcount(MG), sys.getrefcount(x.gi_frame))
    print(sys.version_info[:2], 'base',base,'mid',mid,'after',after)
