import sys, greenlet, stackscope
res = {}
def child_fn():
    res['from_child'] = stackscope.extract(G)
    return 1
def g_fn():
    g_inner()
def g_inner():
    c = greenlet.greenlet(child_fn)   # parent = G (current)
    c.switch()
def main_level():
    global G
    G = greenlet.greenlet(g_fn)
    G.switch()
main_level()
print([f.funcname for f in res['from_child'].frames], res['from_child'].error)
# ask from outside: G2 suspended
def h_fn(): h_inner()
def h_inner(): greenlet.getcurrent().parent.switch()
H = greenlet.greenlet(h_fn); H.switch()
print('from main:', [f.funcname for f in stackscope.extract(H).frames])
def asker(): res['a'] = stackscope.extract(H)
# asker is a sibling (child of main) -> H not ancestor
greenlet.greenlet(asker).switch()
print('from sibling:', [f.funcname for f in res['a'].frames])
# asker as child of H? H suspended in h_inner; create greenlet with parent=H
k = greenlet.greenlet(asker, parent=H)
k.switch()
print('from child-of-H:', [f.funcname for f in res['a'].frames])
