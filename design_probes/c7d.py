import sys, threading, inspect, warnings, collections, faulthandler, io
faulthandler.enable()
import stackscope
from stackscope import lowlevel as ll, _lowlevel_cpython_311 as L311
LOG=[]
class M:
    def __init__(s,n): s.n=n
    def __enter__(s): LOG.append(('ee',s)); return s
    def __exit__(s,*e): LOG.append(('xe',s))
REACHED=threading.Semaphore(0); GO=threading.Semaphore(0)
POS=[0]; DONE=[False]; TRUTH={}   # gate index -> {funcname: [n,...]}
ACTIVE=collections.defaultdict(list)
def gate(tag):
    POS[0]+=1
    REACHED.release(); GO.acquire()
def t_main():
    gate('start')
    t_outer()
    gate('after outer')
    t_outer()
    gate('end')
def t_outer():
    with M(1) as a:
        gate('in with1')
        t_inner()
        gate('after inner')
        for x in (1,2):
            with M(3):
                gate('loop with3')
    gate('after with1')
def t_inner():
    with M(2):
        gate('in with2')
    gate('inner after with2')
def thread_body():
    try: t_main()
    finally:
        DONE[0]=True; REACHED.release()
def advance(j):
    for _ in range(j):
        if DONE[0]: return
        GO.release(); REACHED.acquire()
# find lines
src, start = inspect.getsourcelines(L311.inspect_frame)
def line_of(pat, nth=0):
    hits=[start+i for i,l in enumerate(src) if pat in l]
    return hits[nth]
L_ATTEMPT=line_of("for start, end, _, depth, _ in _parse_exception_table(co):")
L_SLOT=line_of("assert frame.f_lasti == lasti_before", 1)   # the one inside the slot loop (2nd occurrence)
mon=sys.monitoring; TOOL=3
mon.use_tool_id(TOOL,"verif")
code=L311.inspect_frame.__code__
PLAN=dict(fire_at=None, j=0, fired=0, every=False)
seen_line=collections.Counter()
def on_line(co, line):
    if co is not code or line not in (L_ATTEMPT, L_SLOT): return
    kind='attempt' if line==L_ATTEMPT else 'slot'
    if kind=='attempt':
        # LINE event for a `for` line fires on each loop iteration too; only count first per attempt: approximate by counting when previous event was not attempt
        if PLAN.get('last')=='attempt': return
    PLAN['last']=kind
    PLAN['fired']+=1
    if PLAN['every'] or PLAN['fired']==PLAN['fire_at']:
        advance(PLAN['j'])
mon.register_callback(TOOL, mon.events.LINE, on_line)
def run_case(park, fire_at, j, every=False):
    global LOG
    del LOG[:]; POS[0]=0; DONE[0]=False
    th=threading.Thread(target=thread_body); th.start(); REACHED.acquire()  # at gate 1
    advance(park-1)
    PLAN.update(fire_at=fire_at, j=j, fired=0, every=every, last=None)
    mon.set_local_events(TOOL, code, mon.events.LINE)
    err=io.StringIO(); old=sys.stderr; sys.stderr=err
    try:
        with warnings.catch_warnings(record=True) as w:
            warnings.simplefilter('always')
            try: s=stackscope.extract(th); raised=None
            except BaseException as e: s=None; raised=e
    finally:
        sys.stderr=old
        mon.set_local_events(TOOL, code, 0)
    fired=PLAN['fired']
    res=None
    if s is not None:
        res=[(f.funcname,[(getattr(c.obj,'n',None),c.is_exiting) for c in f.contexts]) for f in s.frames if f.funcname.startswith('t_') or f.funcname in ('gate','thread_body')]
    # finish thread
    while not DONE[0]: advance(1)
    th.join()
    return res, raised, len(w), fired, (s.error if s else None)
out=collections.Counter(); details=[]
NG=22
for park in range(1,12):
    base=run_case(park, None, 0)
    for fire_at in range(1,8):
        for j in (1,2,3,6,30):
            r=run_case(park, fire_at, j)
            key=('raised' if r[1] else 'ok', 'warn' if r[2] else 'nowarn', 'err' if r[4] else 'noerr')
            out[key]+=1
            if r[1] or r[2]: details.append((park,fire_at,j,repr(r[1])[:60], r[2], repr(r[4])[:80]))
    r=run_case(park, None, 1, every=True)
    out[('EVERY','raised' if r[1] else 'ok','warn' if r[2] else 'nowarn', 'err' if r[4] else 'noerr')]+=1
for k,v in out.items(): print(k,v)
for d in details[:10]: print(d)
print('baseline sample', run_case(4,None,0)[:1])
print('torn sample', run_case(4,2,2))
