import sys, stackscope
from stackscope import elaborate_frame, unwrap_stackitem, extract, PRUNE
def mk(name):
    # generator frame with given code name
    ns={}
    exec(f"def {name}():\n    yield\n", ns)
    g = ns[name](); next(g); return g
gens = {n: mk(n) for n in "A B C X1 X2".split()}
fr = {n: g.gi_frame for n,g in gens.items()}
class Item:
    def __init__(s, *kids): s.kids = kids
@unwrap_stackitem.register(Item)
def _(it): return tuple(it.kids)
# root -> (G, B, C) ; G -> (G2,), G2 -> (A,)  : A depth 3, B,C depth 1
root = Item(Item(Item(fr['A'])), fr['B'], fr['C'])
X = Item(fr['X1'], fr['X2'])
acts = {}
def reg(name):
    @elaborate_frame.register(gens[name].gi_code)
    def _(frame, nxt):
        a = acts.get(name)
        if a == 'insert': return (X, nxt)
        if a == 'prune': return PRUNE
        return None
for n in gens: reg(n)
def run(**a):
    acts.clear(); acts.update(a)
    s = extract(root)
    return [f.funcname for f in s.frames], s.leaf, s.error
print('plain        ', run())
print('B prunes     ', run(B='prune'))
print('A ins        ', run(A='insert'))
print('A ins,B prune', run(A='insert', B='prune'))
print('A ins,X1 prn ', run(A='insert', X1='prune'))
