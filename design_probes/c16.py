import sys, types, stackscope, weakref, itertools
exec(open('c3.py').read().split("import itertools")[0])
REG=[]
def owner_map(x):
    # discover owners by walking cr_await/gi_yieldfrom/ag_await + gc referents for C-level links
    import gc
    m={}
    seen=set()
    def visit(o):
        if id(o) in seen or o is None: return
        seen.add(id(o))
        for fa,aw in (('cr_frame','cr_await'),('gi_frame','gi_yieldfrom'),('ag_frame','ag_await')):
            if hasattr(o,fa):
                fr=getattr(o,fa)
                if fr is not None: m[id(fr)]=o
                visit(getattr(o,aw)); return
        for r in gc.get_referents(o):
            if isinstance(r,(types.CoroutineType,types.GeneratorType,types.AsyncGeneratorType)): visit(r)
    visit(x); return m
kindsall = ['co','gc','wrap','awgen','anext','asend','afor']
bad=0;n=0;nframes=0
for leaf in (leaf_trap, leaf_iter):
  for L in range(0,3):
    for kinds in itertools.product(kindsall, repeat=L):
        x = build(kinds, leaf)
        if not hasattr(x,'send'): x = co_link(x)
        x.send(None)
        s = stackscope.extract(x)
        om = owner_map(x)
        n+=1
        for i,f in enumerate(s.frames):
            nframes+=1
            o=f.origin
            exp=om.get(id(f.pyframe))
            problems=[]
            if o is not exp: problems.append(('origin', type(o).__name__, getattr(o,'__qualname__',None), 'exp', getattr(exp,'__qualname__',None)))
            if o is not None:
                try:
                    weakref.ref(o)
                    fo=stackscope.extract_outermost(o)
                    if fo.pyframe is not f.pyframe: problems.append('outermost mismatch')
                except Exception as e: problems.append(repr(e))
            if problems:
                bad+=1
                if bad<8: print(kinds, leaf.__name__, i, f.funcname, problems)
        fo=stackscope.extract_outermost(x)
        if fo != s.frames[0]: bad+=1; print('outermost != frames[0]', kinds)
        x.close()
print(sys.version_info[:2],'chains',n,'frames',nframes,'bad',bad)
