import ctypes
o = bytes(5000)
addr = id(o)
del o
v = ctypes.c_size_t.from_address(addr + 40).value   # read freed memory
print("read", v is not None)
