import sys, threading, time, faulthandler, warnings, collections
faulthandler.enable()
import stackscope
from stackscope import lowlevel as ll
sys.setswitchinterval(1e-6)
class M:
    def __init__(s,t): s.t=t
    def __enter__(s): return s
    def __exit__(s,*e): return False
stop=False
def leaf(n):
    with M(3) as c:
        x = [i for i in range(3)]
    return n
def mid(n):
    with M(1) as a:
        leaf(n)
        with M(2) as b:
            leaf(n+1)
    def g():
        with M(4):
            yield 1
            yield 2
    for _ in g(): leaf(0)
def target():
    while not stop:
        mid(1)
th=threading.Thread(target=target); th.start()
stats=collections.Counter()
t0=time.time()
with warnings.catch_warnings(record=True) as w:
    warnings.simplefilter('always')
    while time.time()-t0 < float(sys.argv[1]):
        try:
            s=stackscope.extract(th)
        except BaseException as e:
            stats['RAISED '+type(e).__name__]+=1; continue
        stats['ok']+=1
        if s.error is not None: stats['err '+type(s.error).__name__+str(s.error)[:50]]+=1
        stats['nframes=%d'%len(s.frames)]+=1
        for f in s.frames:
            for c in f.contexts:
                if not isinstance(c.obj, M): stats['badobj '+f.funcname+' '+repr(c.obj)[:30]]+=1
    stats['warnings']=len(w)
    for x in w[:3]: print(str(x.message)[:200])
stop=True; th.join()
for k,v in sorted(stats.items()): print(k,v)
