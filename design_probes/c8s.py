import sys, os, ast, dis, types, warnings, collections, sysconfig
import stackscope
from stackscope import lowlevel as ll
root = sysconfig.get_paths()['stdlib']
stats=collections.Counter(); ex=collections.defaultdict(list)
def norm_target(node):
    # normalised dump of target with ctx stripped
    class Strip(ast.NodeTransformer):
        def generic_visit(self, n):
            super().generic_visit(n)
            if hasattr(n,'ctx'): n.ctx=ast.Load()
            return n
    import copy
    return ast.dump(Strip().visit(copy.deepcopy(node)))
def func_withs(fnode):
    # with items directly in this function (not nested defs/lambdas/classes)
    out=[]
    def visit(n):
        for ch in ast.iter_child_nodes(n):
            if isinstance(ch,(ast.FunctionDef,ast.AsyncFunctionDef,ast.Lambda,ast.ClassDef)): continue
            if isinstance(ch,(ast.With,ast.AsyncWith)):
                for it in ch.items: out.append((ch.lineno, isinstance(ch,ast.AsyncWith), it.optional_vars))
            visit(ch)
    visit(fnode); return out
def index_funcs(tree):
    idx=collections.defaultdict(list)
    for n in ast.walk(tree):
        if isinstance(n,(ast.FunctionDef,ast.AsyncFunctionDef)):
            ln = n.decorator_list[0].lineno if n.decorator_list else n.lineno
            idx[(n.name, ln)].append(n)
        elif isinstance(n, ast.ClassDef):
            ln = n.decorator_list[0].lineno if n.decorator_list else n.lineno
            idx[(n.name, ln)].append(n)
    return idx
def codes(co):
    yield co
    for c in co.co_consts:
        if isinstance(c, types.CodeType): yield from codes(c)
for dp, dn, fn in os.walk(root):
    if 'site-packages' in dp: continue
    for f in fn:
        if not f.endswith('.py'): continue
        p=os.path.join(dp,f)
        try:
            src=open(p,'rb').read(); tree=ast.parse(src); top=compile(src,p,'exec')
        except Exception: continue
        idx=index_funcs(tree)
        for co in codes(top):
            if co.co_name=='<module>': node=tree
            else:
                c=idx.get((co.co_name, co.co_firstlineno))
                if not c or len(c)!=1: 
                    continue
                node=c[0]
            try: wb=ll.analyze_with_blocks(co)
            except Exception as e:
                stats['analyze_exc']+=1; ex['analyze_exc'].append((p.replace(root,''),co.co_name,repr(e)[:80])); continue
            expected=func_withs(node)
            if not wb and not expected: continue
            stats['funcs']+=1
            got=[(c.start_line,c.is_async,c.varname) for _,c in sorted(wb.items())]
            stats['blocks']+=len(got)
            # match each got to a distinct expected
            for (ln,asy,vn) in got:
                cand=[e for e in expected if e[0]==ln and e[1]==asy]
                if not cand:
                    stats['BAD_noline']+=1; ex['noline'].append((p.replace(root,''),co.co_name,ln,asy,vn,[(e[0],e[1]) for e in expected][:5])); continue
                if vn is None:
                    if all(e[2] is not None for e in cand):
                        stats['dropped_target']+=1; ex['dropped'].append((p.replace(root,''),ln,[ast.unparse(e[2]) for e in cand]))
                    else: stats['none_ok']+=1
                    continue
                ok=False
                for e in cand:
                    if e[2] is None: continue
                    try:
                        if ast.dump(ast.parse(vn,mode='eval').body)==norm_target(e[2]): ok=True
                    except SyntaxError: pass
                if ok: stats['target_ok']+=1
                else:
                    stats['BAD_wrongtarget']+=1; ex['wrongtarget'].append((p.replace(root,''),co.co_name,ln,vn,[ast.unparse(e[2]) if e[2] is not None else None for e in cand]))
            if len(got)<len(expected):
                stats['count_mismatch']+=1; ex['count'].append((p.replace(root,''),co.co_name,len(got),len(expected)))
for k,v in sorted(stats.items()): print(k,v)
for k,v in ex.items(): print(k, len(v), v[:8])
