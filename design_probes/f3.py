import sys, stackscope
from stackscope import customize, extract_since
def a(): return extract_since(sys._getframe(0))
customize(a, hide_line=True)
print('direct hide_line ->', a().frames[0].hide_line)
@customize(hide_line=True)
def b(): return extract_since(sys._getframe(0))
print('decorator hide_line ->', b().frames[0].hide_line)
@customize(hide=True)
def c(): return extract_since(sys._getframe(0))
print('decorator hide ->', c().frames[0].hide)
# inner_names in decorator form? not supported by signature
# F6
from stackscope import elaborate_frame
def d(): return extract_since(sys._getframe(0))
@elaborate_frame.register(d)
def _(frame, next_inner):
    return (None, next_inner) if False else ("leafy", next_inner)
try:
    s = d(); print('F6 result', s.frames, s.leaf, s.error)
except Exception as e:
    print('F6 raised', type(e).__name__, e)
