import sys, types, warnings, stackscope, contextlib
from stackscope import lowlevel as ll
class M:
    def __init__(s,n): s.n=n
    def __enter__(s): return s
    def __exit__(s,*e): pass
    def __len__(s): return 0
SRC = '''
def f():
    with M(1) as a, \\
         M(2) as b:
        yield
def g():
    with (
        M(1) as a,
        M(2) as b,
    ):
        yield
def h():
    with M(
        1
    ) as a, M(
        2
    ) as b:
        yield
'''
ns=dict(M=M); exec(SRC, ns)
for n in 'fgh':
    gen = ns[n](); next(gen)
    print(n, [(c.obj.n, c.varname, c.start_line) for c in ll.contexts_active_in_frame(gen.gi_frame, gen)])
# falsy manager in ExitStack
def k():
    with contextlib.ExitStack() as st:
        st.enter_context(M(5))
        st.push(M(6))
        yield
gen = k(); next(gen)
c = stackscope.extract(gen).frames[0].contexts[0]
print([(type(ch.obj).__name__, ch.description) for ch in c.children])
