import sys, functools, random, types, stackscope
from stackscope.lowlevel import get_code
rng=random.Random(1)
bad=0;n=0
for case in range(2000):
    ran=[]
    def base(*a, **k): ran.append(sys._getframe(0).f_code); return 1
    base=types.FunctionType(base.__code__.replace(co_name=f"base{case}"), globals(), f"base{case}", None, base.__closure__)
    thing=base; callable_thing=base; desc=['base']
    for d in range(rng.randint(0,5)):
        k=rng.choice(['partial','wraps','method','classmethod','staticmethod','boundmethod'])
        inner=callable_thing
        if k=='partial':
            thing=functools.partial(inner); callable_thing=thing
        elif k=='wraps':
            def mkw(inner):
                @functools.wraps(inner)
                def wrapper(*a,**kw): return inner(*a,**kw)
                return wrapper
            thing=mkw(inner); callable_thing=thing
        elif k=='method':
            class C: pass
            C.m=lambda self,*a,**kw: None
            # bound method of function only if inner is a plain function
            if isinstance(inner, types.FunctionType):
                thing=types.MethodType(inner, C()); callable_thing=thing
            else: continue
        elif k=='boundmethod':
            if isinstance(inner, types.FunctionType):
                class D: f=inner
                thing=D().f; callable_thing=thing
            else: continue
        elif k=='classmethod':
            if isinstance(inner, types.FunctionType):
                cm=classmethod(inner)
                class E: f=cm
                thing=cm; callable_thing=E.f
            else: continue
        elif k=='staticmethod':
            sm=staticmethod(inner)
            class G: f=sm
            thing=sm; callable_thing=G.f
        desc.append(k)
    del ran[:]
    callable_thing()
    n+=1
    try:
        got=get_code(thing)
        got2=get_code(callable_thing)
    except Exception as e:
        bad+=1; print(desc,'RAISED',e); continue
    if got is not ran[-1] or got2 is not ran[-1]:
        bad+=1; print(desc, got, ran)
print('cases',n,'bad',bad)
# identity vs equality
src="def f():\n    return __import__('stackscope').extract_since(__import__('sys')._getframe(0))\n"
ns1={};ns2={}; exec(compile(src,'<x>','exec'),ns1); exec(compile(src,'<x>','exec'),ns2)
print('equal codes:', ns1['f'].__code__==ns2['f'].__code__, ns1['f'].__code__ is ns2['f'].__code__)
stackscope.customize(ns1['f'], hide=True)
print('f1 hide', ns1['f']().frames[0].hide, 'f2 hide', ns2['f']().frames[0].hide)
