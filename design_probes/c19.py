import sys, pickle, gc, types, traceback, itertools
src=open('c18p.py').read().split("# ---- projection of object tree under options")[0]
exec(src)
from stackscope import Context, Stack, Frame
def info(c):
    if c.obj is not None: return f"{c.varname or '_'}: {type(c.obj).__name__}"
    if c.varname is not None: return c.varname
    return ''
def model_stack(st, show_ctx, hidden, out):
    for f in st.frames:
        if f.hide and not hidden: continue
        if show_ctx:
            for c in f.contexts: model_ctx(c,f,hidden,out)
            if not (f.contexts and f.contexts[-1].is_exiting): out.append((f.filename,f.lineno,f.funcname))
        else: out.append((f.filename,f.lineno,f.funcname))
def model_ctx(c,parent,hidden,out):
    if c.hide and not hidden: return
    i=info(c)
    out.append((parent.filename, c.start_line or parent.lineno, parent.funcname+(f" ({i})" if i else '')))
    if c.inner_stack is not None: model_stack(c.inner_stack, True, hidden, out)
    for ch in c.children:
        if isinstance(ch, Context): model_ctx(ch,parent,hidden,out)
bad=0;n=0
def has_frame(obj, seen):
    if id(obj) in seen: return False
    seen.add(id(obj))
    if isinstance(obj, types.FrameType): return True
    if isinstance(obj,(str,int,float,type(None),bytes,type,types.ModuleType,types.FunctionType)): return False
    return any(has_frame(r,seen) for r in gc.get_referents(obj))
for case in range(400):
    st=rand_stack(0)
    for sc,hid,cl in itertools.product((False,True),(False,True),(False,True)):
        n+=1
        summ=st.as_stdlib_summary(show_contexts=sc, show_hidden_frames=hid, capture_locals=cl)
        got=[(s.filename,s.lineno,s.name) for s in summ]
        exp=[]; model_stack(st,sc,hid,exp)
        probs=[]
        if got!=exp: probs.append('entries')
        try:
            rt=pickle.loads(pickle.dumps(summ))
            if [(s.filename,s.lineno,s.name,s.line,s.locals) for s in rt]!=[(s.filename,s.lineno,s.name,s.line,s.locals) for s in summ]: probs.append('pickle roundtrip')
        except Exception as e: probs.append('pickle '+repr(e)[:60])
        if has_frame(list(summ), set()): probs.append('holds frame')
        flat=st.format_flat(show_contexts=sc)
        expflat=[st._format_header()]
        if st.frames: expflat+=st.as_stdlib_summary(show_contexts=sc).format()
        if st.leaf is not None: expflat.append(f"  Target of innermost frame: {st.leaf!r}\n")
        if st.error is not None: expflat+=list(st._format_error())
        if flat!=expflat: probs.append('flat')
        if probs:
            bad+=1
            if bad<5: print(probs, got[:5], exp[:5])
print('summaries',n,'bad',bad)
