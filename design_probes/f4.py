import sys, types, stackscope
log=[]
def mod(name):
    m = types.ModuleType(name); m._stackscope_install_glue_ = lambda: log.append(name); return m
stackscope.extract(42)
sys.modules['vv_a'] = mod('vv_a')
stackscope.extract(42); print('after add a', log)
del sys.modules['vv_a']
sys.modules['vv_b'] = mod('vv_b')
stackscope.extract(42); print('after del a, add b', log)
sys.modules['vv_c'] = types.ModuleType('vv_c')
stackscope.extract(42); print('after add c', log)
# F5
import types as T
@T.coroutine
def ay(v): return (yield v)
res={}
def sync_inner(): 
    res['s'] = stackscope.extract(CO[0])
async def inner():
    sync_inner()
async def outer():
    await inner()
CO=[None]
co = outer(); CO[0]=co
try: co.send(None)
except StopIteration: pass
s = res['s']
for f in s.frames:
    o = f.origin
    try:
        back = stackscope.extract_outermost(o).pyframe is f.pyframe if o is not None else None
    except Exception as e: back = repr(e)
    print(f.funcname, type(o).__name__, getattr(o,'__qualname__',None), 'recovers:', back)
