import dis, sys
src = '''
async def f(c):
    async with ACM(1) as a:
        with SCM() as b:
            if c:
                return 5
'''
ns={}
exec(src, ns)
dis.dis(ns['f'], show_caches=False)
