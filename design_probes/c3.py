import sys, types, stackscope, traceback
class Probe(Exception): pass
@types.coroutine
def trap(v): return (yield v)
@types.coroutine
def gencoro_link(inner):   # generator-based coroutine awaiting inner
    return (yield from inner)
class AwWrap:   # __await__ returns coroutine wrapper
    def __init__(s, c): s.c=c
    def __await__(s): return s.c.__await__() if hasattr(s.c,'__await__') else s.c
class AwGen:    # __await__ returns generator
    def __init__(s, c): s.c=c
    def __await__(s):
        return (yield from (s.c.__await__() if hasattr(s.c,'__await__') else s.c))
class AwIter:   # __await__ returns plain iterator (leaf)
    def __await__(s): return iter([99])
async def leaf_trap(): 
    await trap(1)
async def leaf_iter():
    await AwIter()
async def co_link(inner):
    await inner
async def agen_body(inner):
    await inner
    yield 1
async def via_anext(inner):
    ag = agen_body(inner)
    await ag.__anext__()
async def via_asend(inner):
    ag = agen_body(inner)
    await ag.asend(None)
async def via_asyncfor(inner):
    async for _ in agen_body(inner): pass
async def via_athrow_setup():
    pass
def build(kinds, leaf):
    x = leaf()
    for k in reversed(kinds):
        if k=='co': x = co_link(x)
        elif k=='gc': x = gencoro_link(x)
        elif k=='wrap': x = co_link(AwWrap(x)) if hasattr(x,'__await__') else co_link(x)
        elif k=='awgen': x = co_link(AwGen(x))
        elif k=='anext': x = via_anext(x)
        elif k=='asend': x = via_asend(x)
        elif k=='afor': x = via_asyncfor(x)
    return x
def oracle(x):
    try:
        x.throw(Probe())
    except Probe as e:
        tb = e.__traceback__.tb_next  # skip our own frame
        out=[]
        while tb: out.append((tb.tb_frame, tb.tb_lineno)); tb=tb.tb_next
        return out
    except BaseException as e:
        return ('other', e)
import itertools
kindsall = ['co','gc','wrap','awgen','anext','asend','afor']
bad=0; n=0
for leaf in (leaf_trap, leaf_iter):
  for L in range(0,3):
    for kinds in itertools.product(kindsall, repeat=L):
        x = build(kinds, leaf)
        if not hasattr(x,'send'): x = co_link(x)
        v = x.send(None)
        s = stackscope.extract(x)
        s2 = stackscope.extract(x, with_contexts=False)
        got = [(f.pyframe, f.lineno) for f in s.frames]
        exp = oracle(x)
        n+=1
        if got != exp or [f.pyframe for f in s2.frames]!=[f for f,_ in got] or s.error:
            bad+=1
            print(leaf.__name__, kinds, 'GOT', [(f.f_code.co_name,l) for f,l in got], 'EXP', [(f.f_code.co_name,l) for f,l in exp] if isinstance(exp,list) else exp, s.error, type(s.leaf).__name__)
print('cases', n, 'bad', bad)
