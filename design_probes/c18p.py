import sys, random, linecache, stackscope
from stackscope import Stack, Frame, Context
rng=random.Random(int(sys.argv[1]) if len(sys.argv)>1 else 0)
# ---- real frames with source in linecache
SRC="".join(f"def fn{i}():\n    with_line_{i} = 1\n    yield  # code line {i}\n" for i in range(12))
FN="<c18src>"
linecache.cache[FN]=(len(SRC),None,SRC.splitlines(True),FN)
ns={'__name__':'c18mod'}; exec(compile(SRC,FN,'exec'),ns)
GENS=[ns[f'fn{i}']() for i in range(12)]
for g in GENS: next(g)
class Obj:
    def __init__(s,n): s.n=n
    def __repr__(s): return f"<Obj {s.n}>"
CNT=[0]
def uid():
    CNT[0]+=1; return CNT[0]
def rand_stack(depth, as_child=False):
    nfr = rng.randint(0 if as_child else 1, 3 if depth<2 else 1)
    frames=[rand_frame(depth) for _ in range(nfr)]
    leaf = Obj(uid()) if rng.random()<0.3 else None
    err=None
    if rng.random()<0.25:
        try: raise ValueError(f"err{uid()}")
        except ValueError as e: err=e
    root = Obj(uid()) if (as_child and rng.random()<0.8) or rng.random()<0.3 else None
    return Stack(root=root, frames=frames, leaf=leaf, error=err)
def rand_frame(depth):
    g=rng.choice(GENS)
    f=Frame(pyframe=g.gi_frame, hide=rng.random()<0.2, hide_line=rng.random()<0.15)
    if depth<3:
        f.contexts=[rand_ctx(depth, top=True) for _ in range(rng.randint(0,2))]
        if f.contexts and rng.random()<0.3: f.contexts[-1].is_exiting=True
    return f
def rand_ctx(depth, top):
    c=Context(obj=Obj(uid()) if rng.random()<0.8 else None, is_async=rng.random()<0.5,
              varname=rng.choice([None,'v','a.b','(x, y)']), start_line=rng.choice([None,2,5,8]) if top else rng.choice([None,2]),
              description=rng.choice([None,f"desc{uid()}(...)"]), hide=rng.random()<0.15)
    if depth<3 and rng.random()<0.4: c.inner_stack=rand_stack(depth+1)
    if depth<3:
        kids=[]
        for _ in range(rng.randint(0,2) if rng.random()<0.5 else 0):
            if rng.random()<0.5: kids.append(rand_ctx(depth+1, top=False))
            else:
                st=rand_stack(depth+1, as_child=True)
                if rng.random()<0.4: st.frames=[]; 
                kids.append(st)
        c.children=kids
    return c
# ---- projection of object tree under options
def proj_stack(st, o):
    frames=[proj_frame(f,o) for f in st.frames if not f.hide or o['hidden']]
    return ('S', frames, st.leaf is not None, st.error is not None)
def proj_frame(f,o):
    ctxs=[]
    if o['ctx']:
        ctxs=[proj_ctx(c,o) for c in f.contexts if not c.hide or o['hidden']]
    return ('F', ctxs)
def proj_ctx(c,o):
    inner = proj_stack(c.inner_stack,o) if c.inner_stack is not None else None
    kids=[]
    for ch in c.children:
        if isinstance(ch, Context):
            if ch.hide and not o['hidden']: continue
            kids.append(proj_ctx(ch,o))
        else:
            kids.append(('CS',)+proj_stack(ch,o)[1:])
    return ('C', inner, kids)
# ---- reader for unicode output
class ParseError(Exception): pass
def read_stack(lines, header=True):
    # lines: list of str without trailing newline; returns ('S', frames, hasleaf, haserr)
    i=0
    if header:
        if not lines or not lines[0].startswith('stackscope.Stack'): raise ParseError('no header %r'%lines[:1])
        i=1
    frames=[]; leaf=False; err=False
    cur=None
    while i<len(lines):
        ln=lines[i]
        if ln.startswith('╠ '):
            if leaf or err: raise ParseError('frame after leaf/err')
            cur=[ln[2:]]; frames.append(cur)
        elif ln.startswith('║ '):
            if cur is None or leaf or err: raise ParseError('continuation without frame')
            cur.append(ln[2:])
        elif ln.startswith('╚ '):
            if leaf or err: raise ParseError('two leaves'); 
            leaf=True; cur=None
        elif ln.startswith('  Error while extracting stack:'):
            err=True; cur=None
        elif err and ln.startswith('  '):
            pass
        elif ln.strip()=='' :
            pass
        else: raise ParseError('unexpected line %r'%ln)
        i+=1
    return ('S',[read_frame(f) for f in frames], leaf, err)
def read_frame(lines):
    head=lines[0]
    if ' in ' not in head or ' at ' not in head: raise ParseError('bad frame head %r'%head)
    ctxs=[]; cur=None; code=False
    for ln in lines[1:]:
        if ln.startswith('├ '):
            if code: raise ParseError('ctx after code')
            cur=[ln[2:]]; ctxs.append(cur)
        elif ln.startswith('├─'):
            if cur is None: raise ParseError('child without ctx')
            cur.append(ln[2:])
        elif ln.startswith('│ '):
            if cur is None: raise ParseError('cont without ctx')
            cur.append(ln[2:])
        elif ln.startswith('└ '):
            if code: raise ParseError('two code lines')
            code=True
        else: raise ParseError('unexpected frame line %r'%ln)
    return ('F',[read_ctx(c) for c in ctxs])
def read_ctx(lines):
    inner=[]; kids=[]; cur=None
    for ln in lines[1:]:
        if ln.startswith('─ '):
            cur=[ln[2:]]; kids.append(cur)
        elif cur is not None:
            if ln.strip()=='' : continue
            if not ln.startswith('  '): raise ParseError('bad child continuation %r'%ln)
            cur.append(ln[2:])
        else:
            if ln.strip()=='' : continue   # blank before first child stack
            inner.append(ln)
    inner_p = read_stack(inner, header=False) if inner else None
    return ('C', inner_p, [read_child(k) for k in kids])
def read_child(lines):
    # a child is either a context (head, inner stack lines, grandchildren) or a child stack (head, stack lines, trailing blank)
    # frameless child stack is indistinguishable from a bare context unless it has leaf/error lines
    c=read_ctx(lines)
    return c
def normalise(t):
    # make frameless child stacks and bare child contexts comparable: ('CS',[],False,False) ~ ('C',None,[])
    if t is None: return None
    if t[0]=='S': return ('S',[normalise(f) for f in t[1]],t[2],t[3])
    if t[0]=='F': return ('F',[normalise(c) for c in t[1]])
    if t[0]=='CS':
        inner=normalise(('S',t[1],t[2],t[3]))
        if inner==('S',[],False,False): inner=None
        return ('C',inner,[])
    if t[0]=='C':
        inner=normalise(t[1])
        if inner==('S',[],False,False): inner=None
        return ('C',inner,[normalise(k) for k in t[2]])
bad=0;n=0
import itertools, collections
why=collections.Counter()
for case in range(int(sys.argv[2]) if len(sys.argv)>2 else 500):
    st=rand_stack(0)
    for asc,ctx,hid in itertools.product((False,),(True,False),(True,False)):
        o=dict(ctx=ctx,hidden=hid)
        lines=st.format(ascii_only=asc, show_contexts=ctx, show_hidden_frames=hid)
        n+=1
        probs=[]
        if any(not l.endswith('\n') or '\n' in l[:-1] for l in lines): probs.append('not single lines')
        if "".join(lines)!="".join(st.format(show_contexts=ctx, show_hidden_frames=hid)): probs.append('nondeterministic')
        try:
            got=normalise(read_stack([l[:-1] for l in lines]))
            exp=normalise(proj_stack(st,o))
            if got!=exp: probs.append('structure mismatch')
        except ParseError as e:
            probs.append('parse error: %s'%e)
        if probs:
            bad+=1; why[probs[0][:40]]+=1
            if bad<=3:
                print(probs); print("".join(lines)); print('GOT',got if 'got' in dir() else None); print('EXP',normalise(proj_stack(st,o)))
print('renders',n,'bad',bad,dict(why))
