import sys, greenlet, stackscope, itertools
from stackscope import StackSlice, extract, extract_since, extract_until
def truth_frames(start):
    # manual: f_back walk + greenlet parent chain
    out=[]; g=greenlet.getcurrent(); cur=start
    while g is not None:
        while cur is not None: out.append(cur); cur=cur.f_back
        g=g.parent
        if g is not None: cur=g.gr_frame
    return out[::-1]
bad=0; n=0
def check(label, got_stack, exp):
    global bad,n
    n+=1
    got=[f.pyframe for f in got_stack.frames]
    if got!=exp or got_stack.error is not None:
        bad+=1
        if bad<15: print('BAD',label,[f.f_code.co_name for f in got],'EXP',[f.f_code.co_name for f in exp], got_stack.error)
def bottom():
    me=sys._getframe(0)
    T=truth_frames(me)
    check('since None', extract_since(None), T)
    N=len(T)
    anchors=[None]+T
    for o in anchors:
        for i in anchors:
            for lim in [None]+list(range(1,N+2)):
                if o is not None and i is not None and T.index(o)>T.index(i): continue
                lo = 0 if o is None else T.index(o)
                hi = N if i is None else T.index(i)+1
                exp=T[lo:hi]
                if lim is not None and len(exp)>lim:
                    exp = exp[:lim] if (i is None and o is not None) else exp[-lim:]
                check(('slice',lo,hi,lim), extract(StackSlice(outer=o,inner=i,limit=lim)), exp)
def lvl(k, plan):
    if not plan: return bottom()
    kind=plan[0]
    if kind=='f': return lvl(k+1, plan[1:])
    if kind=='g':
        def gen():
            yield lvl(k+1, plan[1:])
        return next(gen())
    if kind=='G':
        gr=greenlet.greenlet(lambda: lvl(k+1, plan[1:]))
        return gr.switch()
for plan in ['f','ff','fGf','GfG','fgGf','GGf','fGgGf']:
    b0=bad
    lvl(0, plan)
    print(plan,'cases so far',n,'bad',bad)
