import sys, types, contextlib, collections, io, warnings
import stackscope
from stackscope import _extract, _customization as cust
@types.coroutine
def sus(v): return (yield v)
def cb(*a): pass
@contextlib.contextmanager
def inner_cm():
    with contextlib.ExitStack() as st:
        st.enter_context(contextlib.nullcontext())
        st.callback(cb, 1)
        yield
@contextlib.asynccontextmanager
async def outer_acm():
    with inner_cm():
        yield
async def lvl2():
    async with outer_acm() as o:
        with inner_cm() as i:
            await sus(1)
async def lvl1():
    with inner_cm():
        await lvl2()
co=lvl1(); co.send(None)
class InjectedFault(Exception): pass
# boundary wrappers via module globals
STATE=dict(target=None, counts=collections.Counter(), escaped=[], stackdepth=[])
def wrap(name, orig):
    def w(*a, **k):
        STATE['counts'][name]+=1
        key=(name, STATE['counts'][name])
        if key==STATE['target']:
            ex=InjectedFault(key); STATE['escaped'].append((ex, len(STATE['stackdepth']))); raise ex
        return orig(*a, **k)
    for attr in ('register','dispatch','registry','_clear_cache'):
        if hasattr(orig,attr): setattr(w,attr,getattr(orig,attr))
    return w
orig={n:getattr(_extract,n) for n in ('unwrap_stackitem','elaborate_frame','contexts_active_in_frame','elaborate_context','unwrap_context')}
for n,o in orig.items(): setattr(_extract,n,wrap(n,o))
# track extract_child nesting -> which Stack is being built
orig_child=_extract.extract_child
BUILT=[]
def child(stackitem,*,for_task):
    STATE['stackdepth'].append(stackitem)
    try:
        r=orig_child(stackitem,for_task=for_task)
    finally:
        STATE['stackdepth'].pop()
    BUILT.append((len(STATE['stackdepth'])+1, r)); return r
_extract.extract_child=child
def all_errors(stack, out):
    def errs(e):
        if e is None: return []
        if hasattr(e,'exceptions'): return list(e.exceptions)
        return [e]
    out.append((stack, errs(stack.error)))
    for f in stack.frames:
        for c in f.contexts: ctx(c,out)
def ctx(c,out):
    if c.inner_stack is not None: all_errors(c.inner_stack,out)
    for ch in c.children:
        if isinstance(ch, stackscope.Context): ctx(ch,out)
        else: all_errors(ch,out)
# fault-free
STATE['counts'].clear(); s0=stackscope.extract(co); base=dict(STATE['counts'])
print('fault-free counts', base, 'frames', [f.funcname for f in s0.frames])
res=collections.Counter()
olderr=sys.stderr
for name,cnt in base.items():
    for k in range(1,cnt+1):
        STATE['target']=(name,k); STATE['counts'].clear(); del STATE['escaped'][:]; del BUILT[:]
        sys.stderr=io.StringIO()
        try:
            with warnings.catch_warnings():
                warnings.simplefilter('ignore')
                s=stackscope.extract(co)
        except BaseException as e:
            sys.stderr=olderr; res['RAISED %s %s'%(name,type(e).__name__)]+=1; continue
        sys.stderr=olderr
        if not STATE['escaped']: res['not reached']+=1; continue
        ex,depth=STATE['escaped'][0]
        out=[]; all_errors(s,out)
        where=[i for i,(st,errs) in enumerate(out) if any(e is ex for e in errs)]
        # the Stack being built at injection = the BUILT entry with nesting depth == depth (innermost open at that time)
        res['found in %d stacks'%len(where)]+=1
        pre=[f.pyframe for f in s.frames]; b0=[f.pyframe for f in s0.frames]
        common=0
        while common<min(len(pre),len(b0)) and pre[common] is b0[common]: common+=1
        res['%s common-prefix=%d/%d'%(name,common,len(b0))]+=1
        try: str(s); s.format_flat(); s.as_stdlib_summary(show_contexts=True)
        except Exception as e: res['format raised']+=1
for k,v in sorted(res.items()): print(k,v)
