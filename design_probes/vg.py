import sys, stackscope, contextlib
@contextlib.contextmanager
def cm(): yield
def g():
    with cm() as a:
        yield
x=g(); next(x)
for i in range(20):
    s=stackscope.extract(x)
print(len(s.frames), s.frames[0].contexts[0].varname)
