import dis, sys
src = '''
async def f(c):
    async with ACM(1) as a:
        with SCM() as b:
            try:
                if c: raise KeyError
            except KeyError:
                pass
'''
ns={}
exec(src, ns)
dis.dis(ns['f'], show_caches=False)
